//go:build verif

// c20: lines reach each program in order, exactly once, across reloads.
//
// Drives a real runtime.Runtime: lines are sent on its input channel and the
// program is reloaded (CompileAndRun with a new version of the source) at
// chosen points, including while the previous version is still busy on a line
// (its pattern needs ~100 ms on a 400 kB line; no source hook is used).
//
// Each version v of the program does, for a line "<n> <body>" that matches,
//
//	last = n          (gauge)
//	seen[n][v]++      (the per-line log: which version processed line n, and when)
//
// Observed: the final value of the gauge, for every line the versions that
// processed it and the time stamp of that effect (read from every metric
// object the versions ever held, as a reload detaches the old version's).
// From the harness's own control sequence and those time stamps a schedule of
// the model's events (Take, FanOut, Process, Reload) is reconstructed;
// Corr/Run_C20.v replays it on Run/Reload.v (every event must be enabled) and
// compares the effect log and the gauge.  Oracle: the property text.
package main

import (
	"context"
	"fmt"
	"os"
	"regexp"
	"runtime"
	"sort"
	"strconv"
	"strings"
	"sync"
	"time"

	"github.com/google/mtail/internal/logline"
	"github.com/google/mtail/internal/metrics"
	"github.com/google/mtail/internal/metrics/datum"
	mrt "github.com/google/mtail/internal/runtime"
	"github.com/google/mtail/internal/zzverif/c20struct"
	"github.com/google/mtail/internal/zzverif/vlib"
)

const progName = "p.mtail"

// source renders version ver of the program.  strp: lines carry a leading
// time stamp which the program parses with strptime (per-VM state: the time
// parse memo).  refuse: the version additionally declares, FIRST, a counter
// named like a gauge of the bystander program, so that the metric store
// refuses the reload before anything of it is merged.
func source(ver int, slow, strp, refuse bool) string {
	pre, stmt := "", ""
	if strp {
		pre, stmt = `(?P<date>\S+) `, "  strptime($date, \"2006-01-02T15:04:05Z07:00\")\n"
	}
	pat := `/^` + pre + `(?P<n>\d+) a/`
	if slow {
		pat = `/^` + pre + `(?P<n>\d+) (?:.*a){12}$/`
	}
	decl, rule := "", ""
	if refuse {
		decl, rule = "counter clash\n", "/clash/ {\n  clash++\n}\n"
	}
	// junk lines ("xN junk") match no rule that has an effect, but make an
	// instruction PANIC inside the vm (++ on a histogram; recovered, a runtime
	// error): whatever such a line leaves behind in the vm must not cost the next
	// line its processing
	panicRule := "histogram hp buckets 1, 2\n/^x\\d+ junk/ {\n  hp++\n}\n"
	return fmt.Sprintf("%sgauge last\ncounter seen by n, ver\n%s%s {\n%s  last = $n\n  seen[$n][\"%d\"]++\n}\n%s", decl, panicRule, pat, stmt, ver, rule)
}

const otherName = "other.mtail"
const otherSource = "gauge clash\n/clash (\\d+)/ {\n  clash = $1\n}\n"

type Action struct {
	K      string  `json:"k"`                // send | reload
	N      int     `json:"n,omitempty"`      // send: line number
	Body   int     `json:"body,omitempty"`   // send: 0 junk (matches nothing), 1 short, 2 medium (~40 kB), 3 large (~400 kB), 4 calibrated (Size bytes)
	Size   int     `json:"size,omitempty"`   // body 4: length of the line, calibrated so that the slow pattern needs Secs seconds
	Secs   float64 `json:"secs,omitempty"`   // body 4: the target duration
	Ver    int     `json:"ver,omitempty"`    // reload: new version
	Slow   bool    `json:"slow,omitempty"`   // reload: the new version carries the slow pattern
	Sync   bool    `json:"sync,omitempty"`   // wait for the fan-out loop to be idle first
	Refuse bool    `json:"refuse,omitempty"` // reload: the version compiles but the store refuses one of its metrics; the old version must keep running
}

type Effect struct {
	N     int   `json:"n"`
	Ver   int   `json:"ver"`
	Count int64 `json:"count"`
	Stamp int64 `json:"stamp"`
}

type Case struct {
	Kind      string   `json:"kind"`
	Slow0     bool     `json:"slow0"`           // version 1 carries the slow pattern
	Strp      bool     `json:"strp,omitempty"`  // lines carry a time stamp and every version parses it with strptime (effect stamps are then the lines' times, not processing times)
	Other     bool     `json:"other,omitempty"` // a second program is loaded (needed for refused reloads)
	BadReload string   `json:"bad_reload,omitempty"`
	Actions   []Action `json:"actions"`
	Effects   []Effect `json:"effects"` // sorted by stamp
	Gauge     int64    `json:"gauge"`
	Events    []string `json:"events"` // reconstructed schedule (Coq terms)
	Stuck     bool     `json:"stuck,omitempty"`
	reloadAt  []int64  // stamp after each reload returned
}

func stamped(strp bool, n int, s string) string {
	if !strp || strings.HasPrefix(s, "x") {
		return s
	}
	return time.Date(2024, 3, 1, 10, 0, 0, 0, time.UTC).Add(time.Duration(n)*time.Second).Format(time.RFC3339) + " " + s
}

func body(kind, n, size int) string {
	switch kind {
	case 4:
		return fmt.Sprintf("%d %sa", n, strings.Repeat("ab", size/2))
	case 0:
		return fmt.Sprintf("x%d junk", n)
	case 1:
		return fmt.Sprintf("%d aaaaaaaaaaaa", n)
	case 2:
		return fmt.Sprintf("%d %sa", n, strings.Repeat("ab", 20000))
	}
	return fmt.Sprintf("%d %sa", n, strings.Repeat("ab", 200000))
}

// calibrate measures what the slow pattern costs per byte of line on this
// machine, now (best of three on a 1 MB probe).
func calibrate() float64 {
	re := regexp.MustCompile(`^(?P<n>\d+) (?:.*a){12}$`)
	probe := body(4, 1, 1<<20)
	best := time.Hour
	for i := 0; i < 3; i++ {
		t := time.Now()
		if re.FindStringSubmatchIndex(probe) == nil {
			return 300
		}
		if d := time.Since(t); d < best {
			best = d
		}
	}
	return float64(best.Nanoseconds()) / float64(len(probe))
}

var longestReload float64

var stackBuf = make([]byte, 256<<10)

// fanoutIdle: the runtime's consumer loop is parked on its input channel, i.e.
// every line sent so far has been handed to a VM.
func fanoutIdle() bool {
	deadline := time.Now().Add(10 * time.Second)
	for {
		n := runtime.Stack(stackBuf, true)
		idle := false
		for _, g := range strings.Split(string(stackBuf[:n]), "\n\n") {
			if strings.Contains(g, "internal/runtime.New.func2") {
				i, j := strings.IndexByte(g, '['), strings.IndexByte(g, ']')
				if i >= 0 && j > i && strings.HasPrefix(g[i+1:j], "chan receive") {
					idle = true
				}
			}
		}
		if idle {
			return true
		}
		if time.Now().After(deadline) {
			return false
		}
		time.Sleep(50 * time.Microsecond)
	}
}

func execute(c *Case) {
	lines := make(chan *logline.LogLine)
	var wg sync.WaitGroup
	store := metrics.NewStore()
	r, err := mrt.New(lines, &wg, "", store)
	must(err)
	if c.Other {
		must(r.CompileAndRun(otherName, strings.NewReader(otherSource)))
	}
	must(r.CompileAndRun(progName, strings.NewReader(source(1, c.Slow0, c.Strp, false))))
	var seenObjs []*metrics.Metric
	grab := func() {
		if m := store.FindMetricOrNil("seen", progName); m != nil {
			seenObjs = append(seenObjs, m)
		}
	}
	grab()
	ctx := context.Background()
	for _, a := range c.Actions {
		switch a.K {
		case "send":
			lines <- logline.New(ctx, "log", stamped(c.Strp, a.N, body(a.Body, a.N, a.Size)))
		case "reload":
			if a.Sync && !fanoutIdle() {
				c.Stuck = true
			}
			t0 := time.Now()
			done := make(chan error, 1)
			go func() {
				done <- r.CompileAndRun(progName, strings.NewReader(source(a.Ver, a.Slow, c.Strp, a.Refuse)))
			}()
			select {
			case err := <-done:
				if a.Refuse && err == nil {
					c.BadReload = fmt.Sprintf("the reload to version %d declares a counter named like another program's gauge but was accepted", a.Ver)
				}
				if !a.Refuse {
					must(err)
				}
			case <-time.After(90 * time.Second):
				c.Stuck = true
				fmt.Fprintln(os.Stderr, "c20: reload did not return")
				return
			}
			if w := time.Since(t0).Seconds(); w > longestReload {
				longestReload = w
			}
			c.reloadAt = append(c.reloadAt, time.Now().UnixNano())
			grab()
		}
	}
	close(lines)
	fin := make(chan struct{})
	go func() { wg.Wait(); close(fin) }()
	select {
	case <-fin:
	case <-time.After(90 * time.Second):
		c.Stuck = true
		return
	}
	// the gauge
	if m := store.FindMetricOrNil("last", progName); m != nil {
		if d, err := m.GetDatum(); err == nil {
			c.Gauge = datum.GetInt(d)
		}
	}
	// the per-line log, from every metric object any version held
	seenDatum := map[datum.Datum]bool{}
	for _, m := range seenObjs {
		for _, lv := range m.LabelValues {
			if seenDatum[lv.Value] || len(lv.Labels) != 2 {
				continue
			}
			seenDatum[lv.Value] = true
			n, _ := strconv.Atoi(lv.Labels[0])
			v, _ := strconv.Atoi(lv.Labels[1])
			c.Effects = append(c.Effects, Effect{N: n, Ver: v, Count: datum.GetInt(lv.Value), Stamp: lv.Value.TimeUTC().UnixNano()})
		}
	}
	sort.Slice(c.Effects, func(i, j int) bool {
		if c.Effects[i].Stamp != c.Effects[j].Stamp {
			return c.Effects[i].Stamp < c.Effects[j].Stamp
		}
		return c.Effects[i].N < c.Effects[j].N
	})
}

// schedule reconstructs the event sequence: the control sequence in program
// order, the effects placed by their time stamps (an effect of a version is
// placed before the next hand-over to that version and, if its stamp precedes
// the return of a reload, before that reload).
func schedule(c *Case) {
	type pe struct {
		Effect
		emitted bool
	}
	var pes []*pe
	verOf := map[int]int{}
	for _, e := range c.Effects {
		pes = append(pes, &pe{Effect: e})
		verOf[e.N] = e.Ver
	}
	var ev []string
	fanned := map[int]bool{}
	fanout := func(n int) {
		fanned[n] = true
		ev = append(ev, "(FanOut 0)")
		if c.Other {
			// the bystander program matches nothing and is taken to finish at once
			ev = append(ev, "(FanOut 1)", "(Process 1 1)")
		}
	}
	emit := func(cond func(*pe) bool) {
		for _, p := range pes {
			if !p.emitted && fanned[p.N] && cond(p) {
				p.emitted = true
				ev = append(ev, fmt.Sprintf("(Process 0 %d)", p.Ver))
			}
		}
	}
	cur := 1
	ri := 0
	// hand-overs that the observation places after a coming reload: the
	// fan-out loop had received the line but not yet taken the read lock when
	// the (unsynchronised) reloads went through
	type held struct{ n, until int } // until: index of the reload action after which the line was handed over
	var heldFan []held
	stampOf := map[int]int64{}
	for _, e := range c.Effects {
		stampOf[e.N] = e.Stamp
	}
	reloadIdx := map[int]int{} // action index -> index into reloadAt
	for i, k := 0, 0; i < len(c.Actions); i++ {
		if c.Actions[i].K == "reload" {
			reloadIdx[i] = k
			k++
		}
	}
	for i, a := range c.Actions {
		switch a.K {
		case "send":
			matches := a.Body != 0
			ev = append(ev, fmt.Sprintf("(Take %s)", vlib.Bool(matches)))
			v, processed := verOf[a.N]
			until := -1
			if processed {
				for j := i + 1; j < len(c.Actions) && c.Actions[j].K == "reload" && !c.Actions[j].Sync; j++ {
					r := c.Actions[j]
					if !r.Refuse && r.Ver == v && v != cur {
						until = j // processed by the version this reload installed
					}
					if k := reloadIdx[j]; !c.Strp && k < len(c.reloadAt) && stampOf[a.N] > c.reloadAt[k] && r.Refuse {
						until = j // its effect came after this (waiting) reload had returned
					}
				}
			}
			if until >= 0 {
				heldFan = append(heldFan, held{a.N, until})
			} else {
				emit(func(p *pe) bool { return p.Ver == cur && p.N < a.N })
				fanout(a.N)
				if !matches {
					// a line without effect leaves no time stamp: its VM is
					// taken to finish it at once
					ev = append(ev, fmt.Sprintf("(Process 0 %d)", cur))
				}
			}
		case "reload":
			if ri < len(c.reloadAt) {
				t := c.reloadAt[ri]
				emit(func(p *pe) bool {
					for _, h := range heldFan {
						if p.N >= h.n {
							return false
						}
					}
					return p.Stamp < t
				})
			}
			ri++
			if a.Refuse {
				ev = append(ev, "(ReloadRefused 0)")
			} else {
				ev = append(ev, "(Reload 0)")
				cur = a.Ver
			}
			var rest []held
			for _, h := range heldFan {
				if h.until == i {
					fanout(h.n)
				} else {
					rest = append(rest, h)
				}
			}
			heldFan = rest
		}
	}
	for _, h := range heldFan { // not reached when the observation is consistent
		fanout(h.n)
	}
	emit(func(p *pe) bool { return true })
	c.Events = ev
}

func must(err error) {
	if err != nil {
		fmt.Fprintln(os.Stderr, "c20:", err)
		os.Exit(3)
	}
}

// ---------------------------------------------------------------- oracle

func checkOracle(out *vlib.Out, c *Case) {
	if c.Stuck {
		out.Violate("reload-or-shutdown-stuck", "a reload or the shutdown of the runtime did not complete within 90 s", c)
		return
	}
	if c.BadReload != "" {
		out.Violate("clashing-reload-accepted", c.BadReload, c)
	}
	per := map[int][]Effect{}
	for _, e := range c.Effects {
		per[e.N] = append(per[e.N], e)
	}
	lastWriter := -1
	var sent []int
	for _, a := range c.Actions {
		if a.K != "send" {
			continue
		}
		es := per[a.N]
		total := int64(0)
		for _, e := range es {
			total += e.Count
		}
		if a.Body == 0 {
			if total != 0 {
				out.Violate("non-matching-line-had-effect", fmt.Sprintf("line %d matches no pattern but was counted", a.N), c)
			}
			continue
		}
		sent = append(sent, a.N)
		lastWriter = a.N
		switch {
		case total == 0:
			out.Violate("line-processed-by-no-version", fmt.Sprintf("line %d was sent and matches, but no version of the program recorded it", a.N), c)
		case len(es) > 1:
			out.Violate("line-processed-by-two-versions", fmt.Sprintf("line %d was processed by versions %d and %d", a.N, es[0].Ver, es[1].Ver), c)
		case total > 1:
			out.Violate("line-processed-twice", fmt.Sprintf("line %d was processed %d times", a.N, total), c)
		}
	}
	if lastWriter >= 0 && c.Gauge != int64(lastWriter) {
		out.Violate("gauge-not-last-line", fmt.Sprintf("the last line that writes the gauge is %d but the gauge reads %d", lastWriter, c.Gauge), c)
	}
	// effects in arrival order
	prev := -1
	for _, e := range c.Effects {
		if e.N < prev {
			out.Violate("effects-out-of-arrival-order", fmt.Sprintf("the effect of line %d (version %d) was applied after that of line %d", e.N, e.Ver, prev), c)
			break
		}
		prev = e.N
	}
}

// ---------------------------------------------------------------- Coq

func coqCase(id uint64, c *Case) string {
	log := make([]string, len(c.Effects))
	for i, e := range c.Effects {
		log[i] = fmt.Sprintf("(%d, %d)", e.N, e.Ver)
	}
	np := uint64(1)
	if c.Other {
		np = 2
	}
	return vlib.App("C20Run", vlib.N(id), vlib.N(np), vlib.List(c.Events), vlib.List(log), vlib.Z(c.Gauge))
}

func main() {
	a := vlib.ParseArgs()
	errOut := os.Stderr
	if null, err := os.OpenFile(os.DevNull, os.O_WRONLY, 0); err == nil {
		os.Stderr = null
	}
	_ = errOut
	out := vlib.NewOut(a, "From V Require Import Corr.Run_C20.", "c20case", 1000)
	rng := vlib.NewRand(a.Seed)

	stuck := 0
	runCase := func(c *Case, tag string) {
		if stuck >= 3 {
			return // every further case would wait for the deadline again
		}
		c.Kind = "reload"
		execute(c)
		if c.Stuck {
			stuck++
		}
		schedule(c)
		checkOracle(out, c)
		reloads, busy := 0, false
		for i, x := range c.Actions {
			if x.K == "reload" && x.Refuse && i+1 < len(c.Actions) {
				out.Count("refused-reload-followed-by-lines")
			}
			if x.K == "reload" {
				reloads++
				if i > 0 && c.Actions[i-1].K == "send" && c.Actions[i-1].Body >= 2 {
					if c.Actions[i-1].Body == 4 {
						out.Count("reload-while-previous-version-busy-for-seconds")
					}
					busy = true
				}
			}
		}
		id := out.NextID()
		out.Add(coqCase(id, c), c, reloads > 0 && len(c.Effects) >= 2)
		out.Count(fmt.Sprintf("%s/reloads%d", tag, reloads))
		if busy {
			out.Count("reload-while-previous-version-busy")
		}
	}

	if a.Replay != "" {
		var v struct {
			Case Case `json:"case"`
		}
		vlib.ReadJSON(a.Replay, &v)
		c := v.Case
		c.Effects, c.Events, c.Gauge, c.Stuck = nil, nil, 0, false
		execute(&c)
		o2 := vlib.NewOut(a, "", "", 1)
		checkOracle(o2, &c)
		fmt.Printf("actions %+v\neffects (line, version, count, stamp) %+v\ngauge %d\n", c.Actions, c.Effects, c.Gauge)
		for _, v := range o2.Viol {
			fmt.Printf("FAILS [%s]: %s\n", v.Class, v.What)
		}
		if len(o2.Viol) > 0 {
			os.Exit(1)
		}
		fmt.Println("holds")
		return
	}

	// ---- 1. the reload-while-busy scenario of DESIGN.md, and variants
	nBusy := 3
	if a.Thorough() {
		nBusy = 12
	}
	for i := 0; i < nBusy; i++ {
		c := &Case{Slow0: true, Actions: []Action{
			{K: "send", N: 1, Body: 1}, {K: "send", N: 2, Body: 1},
			{K: "send", N: 3, Body: 3},
			{K: "reload", Ver: 2, Sync: true},
			{K: "send", N: 4, Body: 1},
		}}
		if i%3 == 1 {
			c.Actions = append(c.Actions, Action{K: "send", N: 5, Body: 0})
		}
		if i%3 == 2 {
			c.Actions = append(c.Actions, Action{K: "reload", Ver: 3, Sync: true}, Action{K: "send", N: 5, Body: 1})
		}
		runCase(c, "busy")
	}

	// ---- 1b. the old version stays busy for SECONDS after the reload was
	// requested (a wait for the old vm that is bounded by any timeout shorter
	// than that shows here); the line length is calibrated on this machine
	durs := []float64{3.5}
	if a.Thorough() {
		durs = []float64{1.5, 3.5, 7, 14}
	}
	perByte := calibrate()
	out.Extra["slow_pattern_ns_per_byte"] = perByte
	for _, d := range durs {
		size := int(d * 1e9 / perByte)
		if size > 400<<20 {
			size = 400 << 20
		}
		c := &Case{Slow0: true, Actions: []Action{
			{K: "send", N: 1, Body: 1},
			{K: "send", N: 2, Body: 4, Size: size, Secs: d},
			{K: "reload", Ver: 2, Sync: true},
			{K: "send", N: 3, Body: 1},
		}}
		runCase(c, fmt.Sprintf("busy-%.1fs", d))
	}

	// ---- 1c. a reload that compiles but is refused by the metric store (kind
	// clash with the bystander program), then more lines: the old version must
	// go on processing them - with a program that keeps per-VM state (the
	// strptime memo), with and without the old version busy at that moment
	for i := 0; i < 4; i++ {
		c := &Case{Slow0: i%2 == 1, Strp: i < 3, Other: true, Actions: []Action{
			{K: "send", N: 1, Body: 1}, {K: "send", N: 2, Body: 1 + i%2},
			{K: "reload", Ver: 1002, Slow: i%2 == 1, Sync: i != 2, Refuse: true},
			{K: "send", N: 3, Body: 1}, {K: "send", N: 4, Body: 0}, {K: "send", N: 5, Body: 1},
			{K: "reload", Ver: 2, Sync: true},
			{K: "send", N: 6, Body: 1},
			{K: "reload", Ver: 1004, Sync: true, Refuse: true},
			{K: "send", N: 7, Body: 1},
		}}
		runCase(c, "refused")
	}

	// ---- 2. random interleavings of lines and reloads
	nr := 400
	if a.Thorough() {
		nr = 6000
	}
	for i := 0; i < nr; i++ {
		c := &Case{Slow0: rng.Chance(70), Strp: rng.Chance(40), Other: rng.Chance(50)}
		n := 2 + rng.Intn(7)
		ver, line := 1, 0
		slowNow := c.Slow0
		for j := 0; j < n; j++ {
			if rng.Chance(30) && line > 0 {
				if c.Other && rng.Chance(35) {
					// refused: the installed version (and its pattern) stays;
					// version numbers count the successful reloads
					c.Actions = append(c.Actions, Action{K: "reload", Ver: 1000 + j, Slow: slowNow, Sync: rng.Chance(60), Refuse: true})
					continue
				}
				ver++
				slowNow = rng.Chance(50)
				c.Actions = append(c.Actions, Action{K: "reload", Ver: ver, Slow: slowNow, Sync: rng.Chance(60)})
			} else {
				line++
				b := 1
				switch {
				case rng.Chance(15):
					b = 0
				case slowNow && rng.Chance(25):
					b = 2
				}
				c.Actions = append(c.Actions, Action{K: "send", N: line, Body: b})
			}
		}
		runCase(c, "random")
	}
	out.Extra["longest_reload_wait_s"] = longestReload
	// structural correspondence (coq/Corr/Run_C20_struct.v): oracle entries now, extra shard after Flush
	defer c20struct.Attach(out, a.Out)()
	out.Flush("sequences of 2-8 actions (send a junk / short / ~40 kB / ~400 kB line; reload to a new version - or to a version the metric store refuses because of a kind clash with a second loaded program - with or without waiting for the fan-out loop to be idle; in 40% of the cases the lines carry time stamps that every version parses with strptime) through a real runtime.Runtime, the first scenarios being 'old version busy on a 400 kB line (~0.1 s), reload, next line' and 'old version busy for 3.5 s (thorough: 1.5-14 s; line length calibrated on the spot) after the reload was requested, next line'; a case is non-trivial when it contains a reload and at least two lines with an effect", false)
}
