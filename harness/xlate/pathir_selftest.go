//go:build verif

package xlate

import "fmt"

// SelfTestPath: regression test of the path translator on fixed snippets
// (the reviewed golden outputs).  Run by the C12 harness before every use.
const selfSrc = `package exporter

type formatter func(string, *metrics.Metric, *metrics.LabelSet, time.Duration) string

func fmtA(h string, m *metrics.Metric, l *metrics.LabelSet, d time.Duration) string { return m.Name }
func fmtB(h string, m *metrics.Metric, l *metrics.LabelSet, d time.Duration) string { m.RLock(); return "" }
func helper(m *metrics.Metric) string { return m.Name }
func unlocker(m *metrics.Metric) { m.RUnlock() }

func (e *Exporter) Old(c chan<- prometheus.Metric) {
	e.store.Range(func(m *metrics.Metric) error {
		m.RLock()
		if m.Kind == metrics.Text {
			m.RUnlock()
			return nil
		}
		total.Add(1)
		lsc := make(chan *metrics.LabelSet)
		go m.EmitLabelSets(lsc)
		for ls := range lsc {
			for k, v := range ls.Labels {
				if k == "" { continue }
				keys = append(keys, k)
			}
			pM, err := conv(ls)
			if err != nil {
				glog.Warning(err)
				return nil
			}
			c <- pM
		}
		m.RUnlock()
		return nil
	})
}

func (e *Exporter) New(c chan<- prometheus.Metric) {
	e.store.Range(func(m *metrics.Metric) error {
		m.RLock()
		defer m.RUnlock()
		lsc := make(chan *metrics.LabelSet)
		go m.EmitLabelSets(lsc)
		for ls := range lsc {
			switch helper(m) {
			case "a":
				continue
			case "b":
				for range lsc {
				}
				return nil
			}
			if x { break }
		}
		return nil
	})
}

func (e *Exporter) Sel(w http.ResponseWriter, r *http.Request, f formatter) {
	e.store.Range(func(m *metrics.Metric) error {
		select {
		case <-r.Context().Done():
			return r.Context().Err()
		default:
		}
		m.RLock()
		lc := make(chan *metrics.LabelSet)
		go m.EmitLabelSets(lc)
		for l := range lc {
			fmt.Fprint(w, fmtA(e.hostname, m, l, 0))
		}
		m.RUnlock()
		return nil
	})
}

func (e *Exporter) Bad(w io.Writer, f formatter) {
	e.store.Range(func(m *metrics.Metric) error {
		m.RLock()
		bc := make(chan *metrics.LabelSet, 4)
		lc := make(chan *metrics.LabelSet)
		go m.EmitLabelSets(lc)
		go other(m)
		for l := range lc {
			line := f(e.hostname, m, l, 0)
			unlocker(m)
			x := <-lc
			defer cleanup()
			func() { m.RUnlock() }()
			panic("x")
			m.Lock()
		}
		m.RWMutex.RUnlock()
		return nil
	})
}
`

func kinds(ns []PNode) string {
	s := ""
	for _, n := range ns {
		s += n.K
		if n.K == "If" {
			s += "(" + kinds(n.Then) + "|" + kinds(n.Else) + ")"
		}
		if n.K == "Range" {
			s += "(" + kinds(n.Body) + ")"
		}
		s += " "
	}
	return s
}

func SelfTestPath() error {
	p, err := LoadSrc(selfSrc)
	if err != nil {
		return err
	}
	want := map[string]string{
		"Exporter.Old": "RLock If(RUnlock Return |) Other Other Spawn Range(Other Other If(Other Return |) Other ) RUnlock Return ",
		"Exporter.New": "RLock DeferRUnlock Other Spawn Range(If(Continue |If(Drain Return |) ) If(Break |) ) Return ",
		"Exporter.Sel": "If(Return |) RLock Other Spawn Range(Other ) RUnlock Return ",
		"Exporter.Bad": "RLock Unknown Other Spawn Unknown Range(Unknown Unknown Unknown Unknown Unknown Unknown Unknown ) Unknown Return ",
	}
	for fn, w := range want {
		ir, err := PathOfClosure(p, p, fn)
		if err != nil {
			return fmt.Errorf("%s: %v", fn, err)
		}
		if got := kinds(ir); got != w {
			return fmt.Errorf("%s:\n got  %s\n want %s", fn, got, w)
		}
	}
	return nil
}
