//go:build verif

package xlate

// lockir.go: C11 lock-discipline IR (coq/Export/LockIR.v) of the functions that
// touch shared metric state, re-extracted from the current source with
// go/parser + go/ast only.  Types are inferred syntactically from declared
// receiver/parameter types and a few structural rules (ranging over
// s.Metrics, m.LabelValues, ...).  Callees among the listed packages are
// inlined with their receiver/parameters bound (returns of an inlined callee
// become fall-through, its deferred unlocks run at its end); calls into the
// datum package are skipped because every datum method is itself a checked
// entry that relies on no caller lock.  The emitter goroutine's body is
// attributed to the spawning exporter (at the spawn and at the start of every
// iteration of the receiving loop).  Anything else that could matter becomes
// LUnknown.  Mirrored by a Go copy of the checker (LockViolations); the Coq
// case compares that copy's answer with the verified checker's.
//
// Aliases of guarded containers.  A Go slice or map value is a header: copying
// it (ml := s.Metrics[name]; lists = append(lists, ml); for _, ml := range
// s.Metrics; lvs := m.LabelValues; a helper that returns it) copies no element.
// A local that received such a header is typed with the owner's symbol
// (MetricSlice/MetricMap/LVSlice/LVMap/HandleMap with sym >= 0; MetricLists is
// a local slice or map OF such headers) and every element access through it -
// index, range, copy from, append(x, alias...) as reads; alias[i] = v,
// append(alias, ...), copy to, delete as writes - is an access to the guarded
// field of the owner at that point of the code, whatever lock is (still) held
// there.  len/cap/nil tests read the local header only.  Where the alias
// leaves what the translator follows (argument of an untranslated function,
// return value of an entry, channel send, store into a field or an untracked
// container, composite literal, capture by a go/defer literal) the result is
// LUnknown.  A clone (append([]*Metric(nil), ml...), copy into a made slice)
// reads the elements where it stands and yields an unaliased local.

import (
	"fmt"
	"go/ast"
	"go/token"
	"sort"
	"strings"
)

// ---- IR ----

type LNode struct {
	K    string  `json:"k"` // Acq Rel Bind Acc If Loop Continue Break Return Unknown
	O    int     `json:"o,omitempty"`
	L    int     `json:"l,omitempty"`    // lock name
	W    bool    `json:"w,omitempty"`    // write mode
	F    int     `json:"f,omitempty"`    // field
	A    string  `json:"a,omitempty"`    // access kind: R W A
	Site int     `json:"site,omitempty"` // index into Sites
	Then []LNode `json:"then,omitempty"`
	Else []LNode `json:"else,omitempty"`
	Body []LNode `json:"body,omitempty"`
}

type Site struct {
	Fn    string `json:"fn"`    // function that textually contains the access
	Field string `json:"field"` // field name, or loop / unknown:<why>
	Pos   string `json:"pos"`   // file:line
	Kind  string `json:"kind"`
}

const (
	lMu, lSearch, lInsert, lDmu = 1, 2, 3, 4
	lEmit                       = 5 // pseudo-lock: held while no emitter of this exporter can be running unsupervised
	lHandle                     = 6 // Runtime.handleMu
)

var fieldNames = map[int]string{1: "Metric.LabelValues", 2: "Metric.labelValuesMap", 3: "Metric.Source",
	4: "LabelValue.Expiry", 5: "Metric.(immutable)", 6: "LabelValue.(immutable)", 7: "Store.Metrics",
	8: "Int.Value", 9: "Float.Valuebits", 10: "BaseDatum.Time", 11: "Buckets.(data)", 12: "String.Value",
	13: "Metric.(emitter finished)", 14: "Runtime.handles", 15: "vmHandle.lines"}

func modeCoq(w bool) string {
	if w {
		return "MW"
	}
	return "MR"
}

func LockCoq(ns []LNode) string {
	xs := make([]string, len(ns))
	for i, n := range ns {
		switch n.K {
		case "Acq":
			xs[i] = fmt.Sprintf("LAcq %d %d %s", n.O, n.L, modeCoq(n.W))
		case "Rel":
			xs[i] = fmt.Sprintf("LRel %d %d %s", n.O, n.L, modeCoq(n.W))
		case "Bind":
			xs[i] = fmt.Sprintf("LBind %d", n.O)
		case "Acc":
			k := map[string]string{"R": "KRead", "W": "KWrite", "A": "KAtomic"}[n.A]
			xs[i] = fmt.Sprintf("LAcc %d %d %s %d", n.O, n.F, k, n.Site)
		case "If":
			xs[i] = "LIf (lblock_of " + LockCoq(n.Then) + ") (lblock_of " + LockCoq(n.Else) + ")"
		case "Loop":
			xs[i] = fmt.Sprintf("LLoop (lblock_of %s) %d", LockCoq(n.Body), n.Site)
		case "Continue", "Break", "Return":
			xs[i] = "L" + n.K
		default:
			xs[i] = fmt.Sprintf("LUnknown %d", n.Site)
		}
	}
	return "[" + strings.Join(xs, "; ") + "]"
}

// ---- Go copy of the checker (coq/Export/LockIR.v lcheck_*) ----

type hold struct {
	o, l int
	w    bool
}
type lset []hold

func (s lset) has(h hold) bool {
	for _, x := range s {
		if x == h {
			return true
		}
	}
	return false
}
func (s lset) subset(t lset) bool {
	for _, x := range s {
		if !t.has(x) {
			return false
		}
	}
	return true
}
func inter(a, b lset) lset {
	out := lset{}
	for _, x := range a {
		if b.has(x) {
			out = append(out, x)
		}
	}
	return out
}

type optset struct {
	ok bool
	s  lset
}

func meet(x, y optset) optset {
	if !x.ok {
		return y
	}
	if !y.ok {
		return x
	}
	return optset{true, inter(x.s, y.s)}
}

// guard kinds: >0 lock name, -1 atomic, -2 immutable, 0 none
func specOf(f int) int {
	switch f {
	case 1, 2, 4:
		return lMu
	case 3, 5, 6:
		return -2
	case 7:
		return lSearch
	case 8, 9, 10:
		return -1
	case 11, 12:
		return lDmu
	case 13:
		return lEmit
	case 14, 15:
		return lHandle
	}
	return 0
}

func sok(f int, a string, o int, L lset) bool {
	g := specOf(f)
	switch {
	case g > 0 && a == "W":
		return L.has(hold{o, g, true})
	case g > 0 && a == "R":
		return L.has(hold{o, g, true}) || L.has(hold{o, g, false})
	case g == -1 && a == "A":
		return true
	case g == -2 && a == "R":
		return true
	}
	return false
}

type inv struct {
	ok   bool
	head lset
	site int
}

func lcheckStmt(iv inv, n LNode, L lset) (viol []int, fall, brk optset) {
	switch n.K {
	case "Acq":
		return nil, optset{true, append(lset{{n.O, n.L, n.W}}, L...)}, optset{}
	case "Rel":
		out := lset{}
		for _, h := range L {
			if h.l != n.L {
				out = append(out, h)
			}
		}
		return nil, optset{true, out}, optset{}
	case "Bind":
		out := lset{}
		for _, h := range L {
			if h.o != n.O {
				out = append(out, h)
			}
		}
		return nil, optset{true, out}, optset{}
	case "Acc":
		if !sok(n.F, n.A, n.O, L) {
			viol = []int{n.Site}
		}
		return viol, optset{true, L}, optset{}
	case "If":
		v1, f1, b1 := lcheckBlock(iv, n.Then, L)
		v2, f2, b2 := lcheckBlock(iv, n.Else, L)
		return append(v1, v2...), meet(f1, f2), meet(b1, b2)
	case "Loop":
		v, f, b := lcheckBlock(inv{true, L, n.Site}, n.Body, L)
		if f.ok && !L.subset(f.s) {
			v = append(v, n.Site)
		}
		return v, meet(optset{true, L}, b), optset{}
	case "Continue":
		if !iv.ok {
			return []int{0}, optset{}, optset{}
		}
		if !iv.head.subset(L) {
			viol = []int{iv.site}
		}
		return viol, optset{}, optset{}
	case "Break":
		if !iv.ok {
			return []int{0}, optset{}, optset{}
		}
		return nil, optset{}, optset{true, L}
	case "Return":
		return nil, optset{}, optset{}
	}
	return []int{n.Site}, optset{true, lset{}}, optset{}
}

func lcheckBlock(iv inv, ns []LNode, L lset) (viol []int, fall, brk optset) {
	if len(ns) == 0 {
		return nil, optset{true, L}, optset{}
	}
	v1, f1, b1 := lcheckStmt(iv, ns[0], L)
	if !f1.ok {
		return v1, f1, b1
	}
	v2, f2, b2 := lcheckBlock(iv, ns[1:], f1.s)
	return append(v1, v2...), f2, meet(b1, b2)
}

// LockViolations: sites at which the function, entered with no lock held, is not disciplined.
func LockViolations(ns []LNode) []int {
	v, _, _ := lcheckBlock(inv{}, ns, lset{})
	seen := map[int]bool{}
	var out []int
	for _, s := range v {
		if !seen[s] {
			seen[s] = true
			out = append(out, s)
		}
	}
	sort.Ints(out)
	return out
}

// ---- Go copy of the check-then-act analysis (coq/Export/LockIR.v scheck_*) ----

type opair struct{ o, f int }
type mstate struct {
	ok   bool // false: no fall-through
	r, s []opair
}

func guardedBy(l int, p opair) bool { return specOf(p.f) == l && l > 0 }

func munion(x, y mstate) mstate {
	if !x.ok {
		return y
	}
	if !y.ok {
		return x
	}
	return mstate{true, append(append([]opair{}, x.r...), y.r...), append(append([]opair{}, x.s...), y.s...)}
}

func scheckStmt(n LNode, X mstate) ([]int, mstate) {
	switch n.K {
	case "Acq":
		return nil, X
	case "Rel":
		st := []opair{}
		for _, p := range X.r {
			if guardedBy(n.L, p) {
				st = append(st, p)
			}
		}
		return nil, mstate{true, X.r, append(st, X.s...)}
	case "Bind":
		return nil, mstate{ok: true}
	case "Acc":
		switch n.A {
		case "R":
			s := []opair{}
			for _, p := range X.s {
				if p != (opair{n.O, n.F}) {
					s = append(s, p)
				}
			}
			return nil, mstate{true, append([]opair{{n.O, n.F}}, X.r...), s}
		case "W":
			var v []int
			for _, p := range X.s {
				if p.f == n.F {
					v = []int{n.Site}
					break
				}
			}
			return v, mstate{true, append([]opair{{n.O, n.F}}, X.r...), X.s}
		}
		return nil, X
	case "If":
		v1, f1 := scheckBlock(n.Then, X)
		v2, f2 := scheckBlock(n.Else, X)
		return append(v1, v2...), munion(f1, f2)
	case "Loop":
		v, _ := scheckBlock(n.Body, mstate{ok: true})
		return v, mstate{ok: true}
	case "Continue", "Break", "Return":
		return nil, mstate{}
	}
	return []int{n.Site}, mstate{ok: true}
}

func scheckBlock(ns []LNode, X mstate) ([]int, mstate) {
	if len(ns) == 0 {
		return nil, X
	}
	v1, f1 := scheckStmt(ns[0], X)
	if !f1.ok {
		return v1, f1
	}
	v2, f2 := scheckBlock(ns[1:], f1)
	return append(v1, v2...), f2
}

// StaleViolations: write sites that may act on knowledge read before the
// guarding lock was released and not read again since.
func StaleViolations(ns []LNode) []int {
	v, _ := scheckBlock(ns, mstate{ok: true})
	seen := map[int]bool{}
	var out []int
	for _, s := range v {
		if !seen[s] {
			seen[s] = true
			out = append(out, s)
		}
	}
	sort.Ints(out)
	return out
}

// ---- translation ----

// LockXlate holds the parsed packages and the site table.
type LockXlate struct {
	Pkgs    map[string]*Pkg // "metrics", "datum", "exporter"
	Sites   []Site
	siteIdx map[string]int
	// container-typed result of the latest inlining of a call (set by inline,
	// read by typeOf right after the call's accesses were emitted)
	retTypes map[*ast.CallExpr]val
}

func NewLockXlate(metrics, datum, exporter *Pkg) *LockXlate {
	return &LockXlate{Pkgs: map[string]*Pkg{"metrics": metrics, "datum": datum, "exporter": exporter},
		Sites: []Site{{Fn: "-", Field: "branch outside a loop"}}, siteIdx: map[string]int{}, retTypes: map[*ast.CallExpr]val{}}
}

// WithRuntime adds internal/runtime (handles table, vm input channels).
func (x *LockXlate) WithRuntime(rt *Pkg) *LockXlate { x.Pkgs["runtime"] = rt; return x }

// LineLoopEntry translates the goroutine of runtime.New that fans lines out
// (the function literal that ranges over `lines`); `r` is the Runtime.
func (x *LockXlate) LineLoopEntry() ([]LNode, error) {
	rt := x.Pkgs["runtime"]
	if rt == nil || rt.Funcs["New"] == nil || rt.Funcs["New"].Body == nil {
		return nil, fmt.Errorf("runtime.New not found")
	}
	var lit *ast.FuncLit
	ast.Inspect(rt.Funcs["New"].Body, func(n ast.Node) bool {
		g, ok := n.(*ast.GoStmt)
		if !ok || lit != nil {
			return lit == nil
		}
		if l, ok := g.Call.Fun.(*ast.FuncLit); ok {
			ast.Inspect(l.Body, func(m ast.Node) bool {
				if r, ok := m.(*ast.RangeStmt); ok {
					if id, ok := r.X.(*ast.Ident); ok && id.Name == "lines" {
						lit = l
					}
				}
				return lit == nil
			})
		}
		return lit == nil
	})
	if lit == nil {
		return nil, fmt.Errorf("the line loop of runtime.New not found")
	}
	nsym := 1
	env := &lenv{vars: map[string]val{"r": {t: "Runtime", sym: 1}}}
	var defers []LNode
	c := &lctx{x: x, pkg: "runtime", fn: "New.lineloop", env: env, nsym: &nsym, top: true, defers: &defers,
		emitter: &emitterInfo{chans: map[string]int{}}}
	x.retTypes = map[*ast.CallExpr]val{}
	return c.block(lit.Body.List), nil
}

func (x *LockXlate) site(fn, field, pos, kind string) int {
	k := fn + "|" + field + "|" + pos + "|" + kind
	if i, ok := x.siteIdx[k]; ok {
		return i
	}
	x.Sites = append(x.Sites, Site{fn, field, pos, kind})
	x.siteIdx[k] = len(x.Sites) - 1
	return len(x.Sites) - 1
}

// value of a Go variable during translation
type val struct {
	t     string // Metric Store LV LVfresh MetricSlice MetricMap MetricLists LVSlice LVMap Int Float String Buckets BaseDatum Datum Chan LabelSet Closure Fresh Other
	sym   int    // object symbol (Metric, Store, datum receiver; for LV*: the owning metric; for containers: the owner whose guarded field the header aliases, -1 = a local collection)
	fresh bool   // not yet published: accesses are thread-local
	lit   *ast.FuncLit
	env   *lenv
	pkg   string
}

type lenv struct {
	vars   map[string]val
	parent *lenv
	seq    bool // the scope of the statements that follow a restructured early return: same nesting as its parent
}

// sameNest: the variable is declared at the current nesting (not outside an
// enclosing branch or loop), so that an assignment here replaces its value on
// every path that goes on.
func (e *lenv) sameNest(n string) bool {
	for s := e; s != nil; s = s.parent {
		if _, ok := s.vars[n]; ok {
			return true
		}
		if !s.seq {
			return false
		}
	}
	return false
}

// aliasField: the guarded field of the owner (v.sym) that a value of this type
// is a header copy of; 0 = none.
func aliasField(v val) int {
	if v.sym < 0 || v.fresh {
		return 0
	}
	switch v.t {
	case "MetricSlice", "MetricMap":
		return 7
	case "LVSlice":
		return 1
	case "LVMap":
		return 2
	case "HandleMap":
		return 14
	}
	return 0
}

// carriesAlias: an alias of a guarded container, or a local collection of such aliases.
func carriesAlias(v val) bool {
	return aliasField(v) != 0 || (v.t == "MetricLists" && v.sym >= 0)
}

// containerKind: declared type -> container tag ("" = not one we track).
func containerKind(e ast.Expr) string {
	switch t := e.(type) {
	case *ast.ParenExpr:
		return containerKind(t.X)
	case *ast.ArrayType:
		switch {
		case typeName(t.Elt) == "Metric":
			return "MetricSlice"
		case typeName(t.Elt) == "LabelValue":
			return "LVSlice"
		case containerKind(t.Elt) == "MetricSlice":
			return "MetricLists"
		}
	case *ast.MapType:
		switch {
		case containerKind(t.Value) == "MetricSlice":
			return "MetricLists"
		case typeName(t.Value) == "LabelValue":
			return "LVMap"
		case typeName(t.Value) == "vmHandle":
			return "HandleMap"
		}
	case *ast.Ident:
		if t.Name == "MetricSlice" { // metrics.MetricSlice (testing.go)
			return "MetricSlice"
		}
	}
	return ""
}

// rootIsSelector: e is X.f, X.f[i], X.f[a:b], ... - the access to X.f is
// emitted by the selector itself at the same point of the code.
func rootIsSelector(e ast.Expr) bool {
	for {
		switch t := e.(type) {
		case *ast.ParenExpr:
			e = t.X
		case *ast.IndexExpr:
			e = t.X
		case *ast.SliceExpr:
			e = t.X
		case *ast.SelectorExpr:
			return true
		default:
			return false
		}
	}
}

// aliasAcc: the element access of kind a through the container value e.
func (c *lctx) aliasAcc(at ast.Node, e ast.Expr, a string) []LNode {
	v := c.typeOf(e)
	if f := aliasField(v); f != 0 {
		return c.acc(at, v.sym, f, a)
	}
	return nil
}

// escapes: container aliases among es leave what the translator follows.
func (c *lctx) escapes(es []ast.Expr, why string) []LNode {
	var out []LNode
	for _, e := range es {
		if _, isLit := e.(*ast.FuncLit); isLit {
			continue
		}
		if carriesAlias(c.typeOf(e)) {
			out = append(out, c.unknown(e, "alias of a guarded container "+why))
		}
	}
	return out
}

func (e *lenv) get(n string) (val, bool) {
	for s := e; s != nil; s = s.parent {
		if v, ok := s.vars[n]; ok {
			return v, true
		}
	}
	return val{}, false
}

type lctx struct {
	x       *LockXlate
	pkg     string // package of the code being translated
	fn      string // function that textually contains it
	env     *lenv
	nsym    *int
	top     bool // top-level entry (return = LReturn, deferred unlocks dropped)
	defers  *[]LNode
	depth   int
	emitter *emitterInfo
	// emitter supervision (see lockOp): this function starts an emitter goroutine;
	// we are inside the loop that receives from it (for metric symbol emitMsym),
	// innerLoops loops deeper
	hasSpawn   bool
	emitOn     bool
	emitMsym   int
	innerLoops int
	// container-typed values returned by the inlined callee being translated
	rets    *[]val
	results []string // its named results
}

func spawnsEmitter(n ast.Node) bool {
	found := false
	ast.Inspect(n, func(x ast.Node) bool {
		if g, ok := x.(*ast.GoStmt); ok {
			if sel, ok := g.Call.Fun.(*ast.SelectorExpr); ok && sel.Sel.Name == "EmitLabelSets" {
				found = true
			}
		}
		return !found
	})
	return found
}

type emitterInfo struct {
	chans map[string]int // channel variable -> metric symbol whose emitter feeds it
}

func (c *lctx) p() *Pkg { return c.x.Pkgs[c.pkg] }

func (c *lctx) fresh() int { *c.nsym++; return *c.nsym }

func (c *lctx) unknown(n ast.Node, why string) LNode {
	return LNode{K: "Unknown", Site: c.x.site(c.fn, "unknown: "+why+": "+c.p().src(n), c.p().at(n), "U")}
}

func (c *lctx) acc(n ast.Node, o, f int, a string) []LNode {
	return []LNode{{K: "Acc", O: o, F: f, A: a, Site: c.x.site(c.fn, fieldNames[f], c.p().at(n), a)}}
}

var metricImm = map[string]bool{"Name": true, "Program": true, "Kind": true, "Type": true, "Hidden": true,
	"Keys": true, "Buckets": true, "Limit": true}

var datumTypes = map[string]bool{"Int": true, "Float": true, "String": true, "Buckets": true, "BaseDatum": true}

func declType(e ast.Expr) string {
	// a qualified type only counts if it comes from mtail's own packages (expvar.Int is not datum.Int)
	inner := e
	if st, ok := inner.(*ast.StarExpr); ok {
		inner = st.X
	}
	if sel, ok := inner.(*ast.SelectorExpr); ok {
		if id, ok := sel.X.(*ast.Ident); !ok || (id.Name != "metrics" && id.Name != "datum") {
			return "Other"
		}
	}
	switch typeName(e) {
	case "Metric":
		return "Metric"
	case "Store":
		return "Store"
	case "LabelValue":
		return "LV"
	case "Runtime":
		return "Runtime"
	case "vmHandle":
		return "Handle"
	case "Int", "Float", "String", "Buckets", "BaseDatum":
		if _, isStar := e.(*ast.StarExpr); isStar {
			return typeName(e)
		}
	case "Datum":
		return "Datum"
	}
	if _, ok := e.(*ast.ChanType); ok {
		return "Chan"
	}
	return "Other"
}

// typeOf: syntactic type of an expression (no accesses emitted).
func (c *lctx) typeOf(e ast.Expr) val {
	switch e := e.(type) {
	case *ast.Ident:
		if v, ok := c.env.get(e.Name); ok {
			return v
		}
	case *ast.ParenExpr:
		return c.typeOf(e.X)
	case *ast.StarExpr:
		return c.typeOf(e.X)
	case *ast.UnaryExpr:
		if e.Op == token.AND {
			if cl, ok := e.X.(*ast.CompositeLit); ok && typeName(cl.Type) == "LabelValue" {
				return val{t: "LV", fresh: true}
			}
			return c.typeOf(e.X)
		}
	case *ast.SelectorExpr:
		b := c.typeOf(e.X)
		switch b.t {
		case "Metric":
			switch e.Sel.Name {
			case "LabelValues":
				return val{t: "LVSlice", sym: b.sym, fresh: b.fresh}
			case "labelValuesMap":
				return val{t: "LVMap", sym: b.sym, fresh: b.fresh}
			}
		case "Store":
			if e.Sel.Name == "Metrics" {
				return val{t: "MetricMap", sym: b.sym}
			}
		case "Runtime":
			if e.Sel.Name == "handles" {
				return val{t: "HandleMap", sym: b.sym}
			}
		case "Handle":
			if e.Sel.Name == "lines" {
				return val{t: "HLines", sym: b.sym}
			}
		case "LV":
			if e.Sel.Name == "Value" {
				return val{t: "Datum"}
			}
		case "LabelSet":
			if e.Sel.Name == "Datum" {
				return val{t: "Datum"}
			}
		case "Buckets":
			if e.Sel.Name == "Buckets" {
				return val{t: "BucketSlice", sym: b.sym}
			}
		case "Other":
			if e.Sel.Name == "store" {
				return val{t: "Store", sym: 900}
			}
		}
		if id, ok := e.X.(*ast.Ident); ok && b.t == "" && e.Sel.Name == "store" && id.Name == "e" {
			return val{t: "Store", sym: 900}
		}
	case *ast.IndexExpr:
		b := c.typeOf(e.X)
		switch b.t {
		case "MetricMap":
			return val{t: "MetricSlice", sym: b.sym}
		case "MetricSlice":
			return val{t: "Metric", sym: -1} // some metric: needs a Bind at the use
		case "MetricLists":
			return val{t: "MetricSlice", sym: b.sym}
		case "LVSlice", "LVMap":
			return val{t: "LV", sym: b.sym, fresh: b.fresh}
		case "BucketSlice":
			return val{t: "Bucket", sym: b.sym}
		case "HandleMap":
			return val{t: "Handle", sym: b.sym}
		case "HLinesSlice":
			return val{t: "HLines", sym: b.sym}
		}
	case *ast.SliceExpr:
		return c.typeOf(e.X)
	case *ast.CompositeLit:
		switch ck := containerKind(e.Type); ck {
		case "MetricSlice", "LVSlice", "LVMap", "HandleMap":
			return val{t: ck, sym: -1}
		case "MetricLists": // a local collection of list headers: aliases what its elements alias
			v := val{t: ck, sym: -1}
			for _, el := range e.Elts {
				if kv, ok := el.(*ast.KeyValueExpr); ok {
					el = kv.Value
				}
				if ev := c.typeOf(el); ev.t == "MetricSlice" && ev.sym >= 0 {
					v.sym = ev.sym
				}
			}
			return v
		}
	case *ast.CallExpr:
		if v, ok := c.x.retTypes[e]; ok {
			return v
		}
		if ck := containerKind(e.Fun); ck != "" && len(e.Args) == 1 {
			// conversion: []*Metric(nil) is a new local, []*Metric(x) is x
			if av := c.typeOf(e.Args[0]); av.t == ck {
				return av
			}
			return val{t: ck, sym: -1}
		}
		if id, ok := e.Fun.(*ast.Ident); ok && id.Name == "append" && len(e.Args) > 0 {
			for _, a := range e.Args[1:] {
				if av := c.typeOf(a); av.t == "HLines" { // a collection of vm input channels
					return val{t: "HLinesSlice", sym: av.sym}
				}
			}
			base := c.typeOf(e.Args[0])
			if base.t == "MetricLists" {
				// append(lists, ml) copies the header of ml: the collection aliases what ml aliases
				for _, a := range e.Args[1:] {
					if av := c.typeOf(a); (av.t == "MetricSlice" || av.t == "MetricLists") && av.sym >= 0 {
						base.sym = av.sym
					}
				}
			}
			return base
		}
		if id, ok := e.Fun.(*ast.Ident); ok && id.Name == "make" && len(e.Args) > 0 {
			if _, isChan := e.Args[0].(*ast.ChanType); isChan {
				return val{t: "Chan"}
			}
			if ck := containerKind(e.Args[0]); ck != "" {
				return val{t: ck, sym: -1} // a local collection (of published metrics, of list headers, ...)
			}
		}
		if sel, ok := e.Fun.(*ast.SelectorExpr); ok {
			b := c.typeOf(sel.X)
			if b.t == "Metric" && sel.Sel.Name == "FindLabelValueOrNil" {
				return val{t: "LV", sym: b.sym, fresh: b.fresh}
			}
			if b.t == "Metric" && sel.Sel.Name == "GetDatum" {
				return val{t: "Datum"}
			}
		}
	}
	return val{t: "Other"}
}

// expr scans an expression for shared accesses (reads).
func (c *lctx) expr(e ast.Expr) []LNode {
	var out []LNode
	if e == nil {
		return nil
	}
	switch e := e.(type) {
	case *ast.Ident, *ast.BasicLit:
		return nil
	case *ast.ParenExpr:
		return c.expr(e.X)
	case *ast.StarExpr:
		return c.expr(e.X)
	case *ast.UnaryExpr:
		if e.Op == token.ARROW {
			if id, ok := e.X.(*ast.Ident); ok {
				if v, _ := c.env.get(id.Name); v.t == "Chan" {
					return []LNode{c.unknown(e, "receive on a label-set channel")}
				}
			}
		}
		return c.expr(e.X)
	case *ast.BinaryExpr:
		return append(c.expr(e.X), c.expr(e.Y)...)
	case *ast.KeyValueExpr:
		return c.expr(e.Value)
	case *ast.CompositeLit:
		for _, el := range e.Elts {
			out = append(out, c.expr(el)...)
			if kv, ok := el.(*ast.KeyValueExpr); ok {
				el = kv.Value
			}
			if containerKind(e.Type) != "MetricLists" {
				out = append(out, c.escapes([]ast.Expr{el}, "stored in a composite literal")...)
			}
		}
		return out
	case *ast.TypeAssertExpr:
		return c.expr(e.X)
	case *ast.FuncLit:
		return []LNode{c.unknown(e, "function literal")}
	case *ast.IndexExpr:
		out = append(c.expr(e.X), c.expr(e.Index)...)
		if !rootIsSelector(e.X) { // an element read through a local alias of a guarded container
			out = append(out, c.aliasAcc(e, e.X, "R")...)
		}
		return out
	case *ast.SliceExpr:
		out = c.expr(e.X)
		out = append(out, c.expr(e.Low)...)
		out = append(out, c.expr(e.High)...)
		return out
	case *ast.SelectorExpr:
		return c.selector(e, "R")
	case *ast.CallExpr:
		return c.call(e)
	}
	return nil
}

// selector emits the access X.f of kind a (after the accesses of X itself).
func (c *lctx) selector(e *ast.SelectorExpr, a string) []LNode {
	out := c.expr(e.X)
	b := c.typeOf(e.X)
	if b.fresh {
		return out
	}
	name := e.Sel.Name
	obj := func() (int, []LNode) {
		if b.sym >= 0 {
			return b.sym, nil
		}
		s := c.fresh() // some element of a slice of metrics
		return s, []LNode{{K: "Bind", O: s}}
	}
	switch b.t {
	case "Metric":
		f := 0
		switch {
		case name == "LabelValues":
			f = 1
		case name == "labelValuesMap":
			f = 2
		case name == "Source":
			f = 3
		case metricImm[name]:
			f = 5
		case name == "RWMutex":
			return append(out, c.unknown(e, "direct use of the embedded mutex"))
		}
		if f != 0 {
			o, pre := obj()
			return append(append(out, pre...), c.acc(e, o, f, a)...)
		}
	case "LV":
		switch name {
		case "Expiry":
			return append(out, c.acc(e, b.sym, 4, a)...)
		case "Labels", "Value":
			return append(out, c.acc(e, b.sym, 6, a)...)
		}
	case "Store":
		if name == "Metrics" {
			return append(out, c.acc(e, b.sym, 7, a)...)
		}
	case "Runtime":
		if name == "handles" {
			return append(out, c.acc(e, b.sym, 14, a)...)
		}
	case "Handle":
		if name == "lines" {
			return append(out, c.acc(e, b.sym, 15, a)...)
		}
	case "Int":
		if name == "Value" {
			return append(out, c.acc(e, b.sym, 8, a)...)
		}
		if name == "Time" {
			return append(out, c.acc(e, b.sym, 10, a)...)
		}
	case "Float":
		if name == "Valuebits" {
			return append(out, c.acc(e, b.sym, 9, a)...)
		}
		if name == "Time" {
			return append(out, c.acc(e, b.sym, 10, a)...)
		}
	case "BaseDatum":
		if name == "Time" {
			return append(out, c.acc(e, b.sym, 10, a)...)
		}
	case "Buckets":
		switch name {
		case "Buckets", "Count", "Sum":
			return append(out, c.acc(e, b.sym, 11, a)...)
		case "Time":
			return append(out, c.acc(e, b.sym, 10, a)...)
		}
	case "Bucket":
		return append(out, c.acc(e, b.sym, 11, a)...)
	case "String":
		if name == "Value" {
			return append(out, c.acc(e, b.sym, 12, a)...)
		}
		if name == "Time" {
			return append(out, c.acc(e, b.sym, 10, a)...)
		}
	}
	return out
}

// lvalue: the written location of an assignment target.
func (c *lctx) lvalue(e ast.Expr) []LNode {
	switch e := e.(type) {
	case *ast.SelectorExpr:
		return c.selector(e, "W")
	case *ast.IndexExpr: // X.f[k] = v  or  X.f[i].g = v handled by selector below
		out := c.expr(e.Index)
		if !rootIsSelector(e.X) { // alias[i] = v, lists[i][j] = v: a write to the container it aliases
			if w := c.aliasAcc(e, e.X, "W"); w != nil {
				return append(append(out, c.expr(e.X)...), w...)
			}
		}
		return append(out, c.lvalue(e.X)...)
	case *ast.ParenExpr:
		return c.lvalue(e.X)
	case *ast.StarExpr:
		return c.expr(e.X)
	case *ast.SliceExpr:
		return c.lvalue(e.X)
	case *ast.Ident, *ast.CallExpr:
		// alias[i] = v, delete(alias, k): a write to the guarded container it aliases
		var out []LNode
		if ce, ok := e.(*ast.CallExpr); ok {
			out = c.expr(ce)
		}
		return append(out, c.aliasAcc(e, e, "W")...)
	}
	return nil
}

// lockOp recognises X.Lock() etc. on a metric, a store mutex or a datum mutex.
func (c *lctx) lockOp(call *ast.CallExpr) ([]LNode, bool) {
	sel, ok := call.Fun.(*ast.SelectorExpr)
	if !ok || !lockNames[sel.Sel.Name] {
		return nil, false
	}
	o, l := -1, 0
	switch b := c.typeOf(sel.X); b.t {
	case "Metric":
		o, l = b.sym, lMu
		if b.fresh {
			return nil, true // locking an unpublished object orders nothing
		}
	case "Buckets":
		o, l = b.sym, lDmu
	default:
		if s2, ok := sel.X.(*ast.SelectorExpr); ok {
			bb := c.typeOf(s2.X)
			switch {
			case bb.t == "Store" && s2.Sel.Name == "searchMu":
				o, l = bb.sym, lSearch
			case bb.t == "Store" && s2.Sel.Name == "insertMu":
				o, l = bb.sym, lInsert
			case bb.t == "String" && s2.Sel.Name == "mu":
				o, l = bb.sym, lDmu
			case bb.t == "Runtime" && s2.Sel.Name == "handleMu":
				o, l = bb.sym, lHandle
			}
		}
	}
	if l == 0 || o < 0 {
		return []LNode{c.unknown(call, "lock operation on an unrecognised object")}, true
	}
	// In a function that starts an emitter goroutine, taking the metric lock also
	// takes the pseudo-lock "no emitter of mine runs unsupervised"; releasing the
	// metric lock requires it (pseudo-field 13) and gives it up.
	emit := c.hasSpawn && l == lMu
	acq := func(w bool) []LNode {
		ns := []LNode{{K: "Acq", O: o, L: l, W: w}}
		if emit {
			ns = append(ns, LNode{K: "Acq", O: o, L: lEmit})
		}
		return ns
	}
	rel := func(w bool) []LNode {
		var ns []LNode
		if emit {
			ns = append(ns, c.acc(call, o, 13, "R")...)
		}
		ns = append(ns, LNode{K: "Rel", O: o, L: l, W: w})
		if emit {
			ns = append(ns, LNode{K: "Rel", O: o, L: lEmit})
		}
		return ns
	}
	switch sel.Sel.Name {
	case "Lock":
		return acq(true), true
	case "RLock":
		return acq(false), true
	case "Unlock":
		return rel(true), true
	case "RUnlock":
		return rel(false), true
	}
	return []LNode{c.unknown(call, "lock operation outside the vocabulary")}, true
}

func (c *lctx) args(call *ast.CallExpr) []LNode {
	var out []LNode
	for _, a := range call.Args {
		if _, isLit := a.(*ast.FuncLit); isLit {
			continue // bound to the callee's parameter by inline; elsewhere flagged by the caller
		}
		out = append(out, c.expr(a)...)
	}
	return out
}

func hasLit(call *ast.CallExpr) bool {
	for _, a := range call.Args {
		if _, isLit := a.(*ast.FuncLit); isLit {
			return true
		}
	}
	return false
}

// reflectRead: "reads every field" of a value handed to a reflective reader.
func (c *lctx) reflectRead(n ast.Node, v val) []LNode {
	metricAll := func(o int) []LNode {
		var out []LNode
		for _, f := range []int{5, 1, 6, 4, 3} {
			out = append(out, c.acc(n, o, f, "R")...)
		}
		return out
	}
	switch v.t {
	case "Metric":
		if v.fresh {
			return nil
		}
		return metricAll(v.sym)
	case "MetricSlice", "MetricMap":
		s := c.fresh()
		body := append([]LNode{{K: "Bind", O: s}}, metricAll(s)...)
		var pre []LNode
		if v.sym >= 0 {
			pre = c.acc(n, v.sym, 7, "R")
		}
		return append(pre, LNode{K: "Loop", Body: body, Site: c.x.site(c.fn, "loop", c.p().at(n), "L")})
	case "LV":
		if v.fresh {
			return nil
		}
		return append(c.acc(n, v.sym, 6, "R"), c.acc(n, v.sym, 4, "R")...)
	case "LVSlice":
		if v.fresh {
			return nil
		}
		return append(append(c.acc(n, v.sym, 1, "R"), c.acc(n, v.sym, 6, "R")...), c.acc(n, v.sym, 4, "R")...)
	}
	return nil
}

var reflectiveFuncs = map[string]bool{"Marshal": true, "MarshalIndent": true, "Sprintf": true, "Sprint": true,
	"Errorf": true, "Infof": true, "Info": true, "Warning": true, "Warningf": true, "Error": true, "Fprint": true,
	"Fprintf": true, "DeepEqual": true, "Wrap": true, "Wrapf": true}

func (c *lctx) call(call *ast.CallExpr) []LNode {
	if ns, ok := c.lockOp(call); ok {
		return ns
	}
	// builtins
	if id, ok := call.Fun.(*ast.Ident); ok {
		switch id.Name {
		case "delete":
			if len(call.Args) == 2 {
				return append(c.expr(call.Args[1]), c.lvalue(call.Args[0])...)
			}
		case "close":
			if len(call.Args) == 1 {
				av := c.typeOf(call.Args[0])
				if av.t == "HLines" { // closing a vm's input channel: a write use of it
					out := c.args(call)
					if sel, ok := call.Args[0].(*ast.SelectorExpr); ok {
						// the selector read emitted by args is upgraded to a write
						return append(c.expr(sel.X), c.acc(call, av.sym, 15, "W")...)
					}
					return append(out, c.acc(call, av.sym, 15, "W")...)
				}
				if av.t != "Chan" {
					return c.args(call) // some other channel (done, signalQuit, ...)
				}
			}
			return []LNode{c.unknown(call, "close of a label-set channel")}
		case "panic", "recover":
			return []LNode{c.unknown(call, "call of "+id.Name)}
		case "append":
			out := c.args(call)
			if len(call.Args) == 0 {
				return out
			}
			base := c.typeOf(call.Args[0])
			// append may store into the spare capacity of the array the first argument points to
			out = append(out, c.aliasAcc(call, call.Args[0], "W")...)
			for i, a := range call.Args[1:] {
				if call.Ellipsis.IsValid() && i == len(call.Args)-2 {
					if !rootIsSelector(a) { // the elements are read here
						out = append(out, c.aliasAcc(call, a, "R")...)
					}
					if av := c.typeOf(a); av.t == "MetricLists" && av.sym >= 0 && base.t != "MetricLists" {
						out = append(out, c.escapes([]ast.Expr{a}, "appended to an untracked collection")...)
					}
					continue
				}
				if base.t != "MetricLists" { // a header stored where we do not follow it
					out = append(out, c.escapes([]ast.Expr{a}, "appended to an untracked collection")...)
				}
			}
			return out
		case "copy":
			out := c.args(call)
			if len(call.Args) == 2 {
				out = append(out, c.aliasAcc(call, call.Args[0], "W")...)
				if !rootIsSelector(call.Args[1]) {
					out = append(out, c.aliasAcc(call, call.Args[1], "R")...)
				}
				if dv := c.typeOf(call.Args[0]); dv.t == "MetricLists" {
					out = append(out, c.escapes([]ast.Expr{call.Args[1]}, "copied into a collection")...)
				}
			}
			return out
		case "len", "cap", "make", "new", "string", "int", "int64", "float64", "uint64":
			return c.args(call)
		}
		// a closure bound to a parameter (Store.Range's f)
		if v, ok := c.env.get(id.Name); ok && v.t == "Closure" {
			return append(c.args(call), c.inlineClosure(call, v)...)
		}
		// package-level function of the current package
		if d := c.p().Funcs[id.Name]; d != nil && d.Body != nil {
			return append(c.args(call), c.inline(call, c.pkg, d, val{}, call.Args)...)
		}
		if v, ok := c.env.get(id.Name); ok && v.t == "Other" {
			// a function value we cannot resolve (e.g. the push formatter): every
			// package function with a matching arity that takes a metric
			return append(c.args(call), c.inlineFormatters(call)...)
		}
		return append(c.args(call), c.escapes(call.Args, "passed to an untranslated function")...)
	}
	sel, ok := call.Fun.(*ast.SelectorExpr)
	if !ok {
		return append(append(c.expr(call.Fun), c.args(call)...), c.escapes(call.Args, "passed to an untranslated function")...)
	}
	// atomic.Xxx(&d.f, ...)
	if id, ok := sel.X.(*ast.Ident); ok && id.Name == "atomic" && len(call.Args) >= 1 {
		var out []LNode
		if u, ok := call.Args[0].(*ast.UnaryExpr); ok && u.Op == token.AND {
			if s, ok := u.X.(*ast.SelectorExpr); ok {
				out = c.selector(s, "A")
			}
		}
		for _, a := range call.Args[1:] {
			out = append(out, c.expr(a)...)
		}
		return out
	}
	// datum package API: its functions/methods are checked entries relying on no caller lock
	if id, ok := sel.X.(*ast.Ident); ok && id.Name == "datum" {
		return append(c.args(call), c.escapes(call.Args, "passed to an untranslated function")...)
	}
	recv := c.typeOf(sel.X)
	switch recv.t {
	case "Datum", "LabelSet":
		return append(append(c.expr(sel.X), c.args(call)...), c.escapes(call.Args, "passed to an untranslated function")...)
	case "Metric", "Store", "Int", "Float", "String", "Buckets", "BaseDatum", "Runtime":
		pkg := "metrics"
		if datumTypes[recv.t] {
			pkg = "datum"
		}
		if recv.t == "Runtime" {
			pkg = "runtime"
			if c.x.Pkgs[pkg] == nil || c.x.Pkgs[pkg].Funcs["Runtime."+sel.Sel.Name] == nil {
				return append(append(c.expr(sel.X), c.args(call)...), c.escapes(call.Args, "passed to an untranslated function")...)
			}
		}
		tn := recv.t
		d := c.x.Pkgs[pkg].Funcs[tn+"."+sel.Sel.Name]
		if d == nil && datumTypes[tn] { // promoted from the embedded BaseDatum
			d = c.x.Pkgs[pkg].Funcs["BaseDatum."+sel.Sel.Name]
		}
		if d == nil || d.Body == nil {
			return append(c.expr(sel.X), append(c.args(call), c.unknown(call, "method not found in source"))...)
		}
		out := append(c.expr(sel.X), c.args(call)...)
		if recv.t == "Metric" && sel.Sel.Name == "EmitLabelSets" {
			return out // only meaningful under `go`; handled there
		}
		if recv.sym < 0 {
			s := c.fresh()
			out = append(out, LNode{K: "Bind", O: s})
			recv.sym = s
		}
		return append(out, c.inline(call, pkg, d, recv, call.Args)...)
	}
	// reflective readers and formatters: arguments of metric types are read field by field
	out := append(c.expr(sel.X), c.args(call)...)
	if hasLit(call) {
		out = append(out, c.unknown(call, "function literal passed to an unlisted function"))
	}
	if reflectiveFuncs[sel.Sel.Name] {
		for _, a := range call.Args {
			v := c.typeOf(a)
			switch v.t {
			case "Store":
				if d := c.x.Pkgs["metrics"].Funcs["Store.MarshalJSON"]; d != nil && strings.HasPrefix(sel.Sel.Name, "Marshal") {
					out = append(out, c.inline(call, "metrics", d, v, nil)...)
				}
			case "Metric":
				if v.sym < 0 {
					s := c.fresh()
					out = append(out, LNode{K: "Bind", O: s})
					v.sym = s
				}
				if strings.HasPrefix(sel.Sel.Name, "Marshal") || sel.Sel.Name == "DeepEqual" {
					out = append(out, c.reflectRead(a, v)...)
				} else if d := c.x.Pkgs["metrics"].Funcs["Metric.String"]; d != nil && !v.fresh {
					out = append(out, c.inline(call, "metrics", d, v, nil)...) // %v calls String()
				}
			case "MetricLists", "LVMap", "HandleMap":
				out = append(out, c.escapes([]ast.Expr{a}, "passed to a reflective reader")...)
			default:
				out = append(out, c.reflectRead(a, v)...)
			}
		}
	} else {
		out = append(out, c.escapes(call.Args, "passed to an untranslated function")...)
	}
	return out
}

func (c *lctx) inlineFormatters(call *ast.CallExpr) []LNode {
	var names []string
	for k, d := range c.p().Funcs {
		if d.Recv == nil && d.Type.Params != nil && d.Type.Params.NumFields() == len(call.Args) && d.Body != nil {
			takesMetric := false
			for _, f := range d.Type.Params.List {
				if typeName(f.Type) == "Metric" {
					takesMetric = true
				}
			}
			if takesMetric {
				names = append(names, k)
			}
		}
	}
	sort.Strings(names)
	var chain []LNode
	for _, k := range names {
		body := c.inline(call, c.pkg, c.p().Funcs[k], val{}, call.Args)
		chain = []LNode{{K: "If", Then: body, Else: chain}}
	}
	return chain
}

// inline translates a callee body with receiver and parameters bound.
func (c *lctx) inline(at ast.Node, pkg string, d *ast.FuncDecl, recv val, args []ast.Expr) []LNode {
	if c.depth > 6 {
		return []LNode{c.unknown(at, "call depth")}
	}
	env := &lenv{vars: map[string]val{}}
	if d.Recv != nil && len(d.Recv.List) == 1 && len(d.Recv.List[0].Names) == 1 {
		env.vars[d.Recv.List[0].Names[0].Name] = recv
	}
	i := 0
	var pre []LNode
	if d.Type.Params != nil {
		for _, f := range d.Type.Params.List {
			for _, n := range f.Names {
				v := val{t: declType(f.Type)}
				if _, isEll := f.Type.(*ast.Ellipsis); isEll {
					v = val{t: "Other"}
				} else if i < len(args) {
					av := c.typeOf(args[i])
					ck := containerKind(f.Type)
					if ck != "" {
						v = val{t: ck, sym: -1}
					}
					switch {
					case ck != "" && (av.t == ck || (ck == "MetricLists" && av.t == "MetricMap")):
						v = av // the callee works on the caller's header
					case carriesAlias(av):
						pre = append(pre, c.unknown(args[i], "alias of a guarded container bound to a parameter of another type"))
					case av.t == "Closure":
						v = av
					case av.t == v.t || (v.t == "LV" && av.t == "LV"):
						v = av
						if av.t == "Metric" && av.sym < 0 {
							s := c.fresh()
							pre = append(pre, LNode{K: "Bind", O: s})
							v.sym = s
						}
					case v.t == "Metric" || v.t == "Store":
						s := c.fresh()
						pre = append(pre, LNode{K: "Bind", O: s})
						v.sym = s
					case v.t == "Handle":
						v.sym = recv.sym // a handle of the receiving Runtime (new or old)
					}
					if fl, ok := args[i].(*ast.FuncLit); ok {
						v = val{t: "Closure", lit: fl, env: c.env, pkg: c.pkg}
					}
				}
				env.vars[n.Name] = v
				if _, isEll := f.Type.(*ast.Ellipsis); !isEll {
					i++
				}
			}
		}
	}
	var defers []LNode
	var rets []val
	sub := &lctx{x: c.x, pkg: pkg, fn: funcKey(d), env: env, nsym: c.nsym, top: false, defers: &defers, depth: c.depth + 1,
		emitter: &emitterInfo{chans: map[string]int{}}, hasSpawn: spawnsEmitter(d.Body), rets: &rets}
	if d.Type.Results != nil {
		for _, f := range d.Type.Results.List {
			for _, n := range f.Names {
				sub.results = append(sub.results, n.Name)
				if ck := containerKind(f.Type); ck != "" {
					env.vars[n.Name] = val{t: ck, sym: -1}
				}
			}
		}
	}
	body := sub.block(d.Body.List)
	// what the call evaluates to, if it is a container: an alias if any return is one
	if ce, ok := at.(*ast.CallExpr); ok {
		delete(c.x.retTypes, ce)
		if d.Type.Results != nil && d.Type.Results.NumFields() >= 1 {
			var rv val
			for _, r := range rets {
				if carriesAlias(r) || rv.t == "" {
					rv = r
				}
			}
			if rv.t != "" {
				c.x.retTypes[ce] = rv
			}
		}
	}
	return append(append(pre, body...), defers...)
}

func (c *lctx) inlineClosure(at *ast.CallExpr, v val) []LNode {
	if c.depth > 6 {
		return []LNode{c.unknown(at, "call depth")}
	}
	env := &lenv{vars: map[string]val{}, parent: v.env}
	i := 0
	var pre []LNode
	if v.lit.Type.Params != nil {
		for _, f := range v.lit.Type.Params.List {
			for _, n := range f.Names {
				pv := val{t: declType(f.Type)}
				if i < len(at.Args) {
					av := c.typeOf(at.Args[i])
					ck := containerKind(f.Type)
					if ck != "" {
						pv = val{t: ck, sym: -1}
					}
					if av.t == pv.t {
						pv = av
					} else if carriesAlias(av) {
						pre = append(pre, c.unknown(at.Args[i], "alias of a guarded container bound to a parameter of another type"))
					}
				}
				if (pv.t == "Metric" || pv.t == "Store") && pv.sym <= 0 {
					s := c.fresh()
					pre = append(pre, LNode{K: "Bind", O: s})
					pv.sym = s
				}
				env.vars[n.Name] = pv
				i++
			}
		}
	}
	var defers []LNode
	sub := &lctx{x: c.x, pkg: v.pkg, fn: c.closureName(v), env: env, nsym: c.nsym, top: false, defers: &defers, depth: c.depth + 1,
		emitter: &emitterInfo{chans: map[string]int{}}, hasSpawn: spawnsEmitter(v.lit.Body)}
	body := sub.block(v.lit.Body.List)
	return append(append(pre, body...), defers...)
}

func (c *lctx) closureName(v val) string {
	// the function that textually contains the literal
	for k, d := range c.x.Pkgs[v.pkg].Funcs {
		if d.Body != nil && d.Body.Pos() <= v.lit.Pos() && v.lit.End() <= d.Body.End() {
			return k
		}
	}
	return "func"
}

func endsInReturn(b *ast.BlockStmt) bool {
	if b == nil || len(b.List) == 0 {
		return false
	}
	_, ok := b.List[len(b.List)-1].(*ast.ReturnStmt)
	return ok
}

// block translates a statement list.  In an inlined callee a `return` cannot
// be expressed directly; `S; if c {A; return}; REST` is restructured into
// `S; if c {A} else {REST}`, and nothing follows a `return`.  (A return inside
// a loop of an inlined callee only ends the iteration: an over-approximation
// of the paths with the same locksets.)
func (c *lctx) block(ss []ast.Stmt) []LNode {
	var out []LNode
	for i, s := range ss {
		if !c.top {
			if ifs, ok := s.(*ast.IfStmt); ok && ifs.Else == nil && endsInReturn(ifs.Body) {
				saved := c.env
				c.env = &lenv{vars: map[string]val{}, parent: saved}
				out = append(out, c.stmt(ifs.Init)...)
				out = append(out, c.expr(ifs.Cond)...)
				// deferred unlocks registered on one of the two paths run at the end of
				// that path only
				scoped := func(f func() []LNode) []LNode {
					before := len(*c.defers)
					ns := f()
					cur := *c.defers
					k := len(cur) - before
					mine := append([]LNode{}, cur[:k]...)
					*c.defers = cur[k:]
					return append(ns, mine...)
				}
				then := scoped(func() []LNode { return c.stmt(ifs.Body) })
				c.env = &lenv{vars: map[string]val{}, parent: c.env, seq: true}
				rest := scoped(func() []LNode { return c.block(ss[i+1:]) })
				c.env = saved
				return append(out, LNode{K: "If", Then: then, Else: rest})
			}
			if _, ok := s.(*ast.ReturnStmt); ok {
				return append(out, c.stmt(s)...)
			}
		}
		out = append(out, c.stmt(s)...)
	}
	return out
}

func (c *lctx) bindRangeVar(name ast.Expr, v val) []LNode {
	id, ok := name.(*ast.Ident)
	if !ok || id.Name == "_" {
		return nil
	}
	var pre []LNode
	if v.t == "Metric" {
		v.sym = c.fresh()
		pre = []LNode{{K: "Bind", O: v.sym}}
	}
	c.env.vars[id.Name] = v
	return pre
}

func (c *lctx) emitterBody(at ast.Node, msym int) []LNode {
	d := c.x.Pkgs["metrics"].Funcs["Metric.EmitLabelSets"]
	if d == nil {
		return []LNode{c.unknown(at, "EmitLabelSets not found")}
	}
	// the channel operations of the emitter itself are C12's business
	env := &lenv{vars: map[string]val{}}
	if len(d.Recv.List[0].Names) == 1 {
		env.vars[d.Recv.List[0].Names[0].Name] = val{t: "Metric", sym: msym}
	}
	var defers []LNode
	sub := &lctx{x: c.x, pkg: "metrics", fn: "Metric.EmitLabelSets", env: env, nsym: c.nsym, defers: &defers, depth: c.depth + 1,
		emitter: &emitterInfo{chans: map[string]int{}}}
	if d.Type.Params != nil {
		for _, f := range d.Type.Params.List {
			for _, n := range f.Names {
				env.vars[n.Name] = val{t: "Other"} // its own channel: sends are not shared-field accesses
			}
		}
	}
	var out []LNode
	for _, s := range d.Body.List {
		if es, ok := s.(*ast.ExprStmt); ok {
			if call, ok := es.X.(*ast.CallExpr); ok {
				if id, ok := call.Fun.(*ast.Ident); ok && id.Name == "close" {
					continue
				}
			}
		}
		out = append(out, sub.stmt(s)...)
	}
	return out
}

func (c *lctx) stmt(s ast.Stmt) []LNode {
	switch s := s.(type) {
	case nil:
		return nil
	case *ast.EmptyStmt:
		return nil
	case *ast.BlockStmt:
		saved := c.env
		c.env = &lenv{vars: map[string]val{}, parent: saved}
		out := c.block(s.List)
		c.env = saved
		return out
	case *ast.ExprStmt:
		return c.expr(s.X)
	case *ast.SendStmt:
		out := append(c.expr(s.Value), c.expr(s.Chan)...)
		out = append(out, c.escapes([]ast.Expr{s.Value}, "sent on a channel")...)
		if _, isId := s.Chan.(*ast.Ident); isId {
			if cv := c.typeOf(s.Chan); cv.t == "HLines" { // a vm input channel held in a local
				out = append(out, c.acc(s, cv.sym, 15, "R")...)
			}
		}
		return out
	case *ast.IncDecStmt:
		return c.lvalue(s.X)
	case *ast.DeclStmt:
		var out []LNode
		if gd, ok := s.Decl.(*ast.GenDecl); ok {
			for _, sp := range gd.Specs {
				if vs, ok := sp.(*ast.ValueSpec); ok {
					for _, v := range vs.Values {
						out = append(out, c.expr(v)...)
					}
					for i, n := range vs.Names {
						t := val{t: "Other"}
						if vs.Type != nil {
							t = val{t: declType(vs.Type), fresh: declType(vs.Type) == "LV"}
							if ck := containerKind(vs.Type); ck != "" {
								t = val{t: ck, sym: -1}
							}
						}
						if len(vs.Values) == len(vs.Names) {
							// var ml = s.Metrics[name]: a header copy like ml := ...
							if v := c.typeOf(vs.Values[i]); carriesAlias(v) || (vs.Type == nil && v.t != "Other" && v.t != "Metric") {
								t = v
							}
						}
						c.env.vars[n.Name] = t
					}
				}
			}
		}
		return out
	case *ast.AssignStmt:
		var out []LNode
		for _, r := range s.Rhs {
			out = append(out, c.expr(r)...)
		}
		for i, l := range s.Lhs {
			if id, ok := l.(*ast.Ident); ok {
				// local variable: record its syntactic type
				v := val{t: "Other"}
				if len(s.Rhs) == len(s.Lhs) {
					v = c.typeOf(s.Rhs[i])
				} else if i == 0 && len(s.Rhs) == 1 {
					v = c.typeOf(s.Rhs[0])
				}
				if v.t == "Metric" && v.sym < 0 {
					v.sym = c.fresh()
					out = append(out, LNode{K: "Bind", O: v.sym})
				}
				if id.Name != "_" {
					if s.Tok == token.DEFINE {
						c.env.vars[id.Name] = v
					} else if old, ok := c.env.get(id.Name); ok && (old.t != v.t || old.sym != v.sym) && v.t != "Other" {
						// re-assignment of a typed local (oldestLV = lv): keep the owner.  A
						// container that may alias a guarded one stays so unless the new value
						// replaces it on every path that goes on (same nesting).
						if !(carriesAlias(old) && !carriesAlias(v) && !c.env.sameNest(id.Name)) {
							c.setVar(id.Name, v)
						}
					}
				}
				continue
			}
			out = append(out, c.lvalue(l)...)
			// a header stored somewhere else than a local variable
			var rv val
			var re ast.Expr
			if len(s.Rhs) == len(s.Lhs) {
				re = s.Rhs[i]
				rv = c.typeOf(re)
			}
			if re != nil && carriesAlias(rv) {
				lv := c.typeOf(l)
				ix, isIx := l.(*ast.IndexExpr)
				switch {
				case lv.t == rv.t && lv.sym == rv.sym && rootIsSelector(l):
					// s.Metrics[n] = append(s.Metrics[n], m): back into the guarded container itself
				case isIx && rv.t == "MetricSlice":
					// lists[k] = ml, cp[name] = ml: the local collection now aliases what ml aliases
					if bid, ok := ix.X.(*ast.Ident); ok {
						if bv, ok := c.env.get(bid.Name); ok && bv.t == "MetricLists" {
							bv.sym = rv.sym
							c.setVar(bid.Name, bv)
							break
						}
					}
					out = append(out, c.escapes([]ast.Expr{re}, "stored outside a local variable")...)
				default:
					out = append(out, c.escapes([]ast.Expr{re}, "stored outside a local variable")...)
				}
			}
		}
		return out
	case *ast.DeferStmt:
		if ns, ok := c.lockOp(s.Call); ok {
			if c.top {
				return nil // held to the end of the entry function
			}
			*c.defers = append(ns, *c.defers...)
			return nil
		}
		if _, isLit := s.Call.Fun.(*ast.FuncLit); isLit {
			return []LNode{c.unknown(s, "deferred function literal")}
		}
		return c.expr(s.Call)
	case *ast.GoStmt:
		if sel, ok := s.Call.Fun.(*ast.SelectorExpr); ok && sel.Sel.Name == "EmitLabelSets" && len(s.Call.Args) == 1 {
			if b := c.typeOf(sel.X); b.t == "Metric" && b.sym >= 0 {
				if id, ok := s.Call.Args[0].(*ast.Ident); ok && c.emitter != nil {
					c.emitter.chans[id.Name] = b.sym
					out := c.emitterBody(s, b.sym)
					if c.hasSpawn {
						out = append(out, LNode{K: "Rel", O: b.sym, L: lEmit})
					}
					return out
				}
			}
		}
		if lit, isLit := s.Call.Fun.(*ast.FuncLit); isLit {
			// another goroutine: only the evaluation of its arguments happens here
			var out []LNode
			for _, a := range s.Call.Args {
				out = append(out, c.expr(a)...)
			}
			out = append(out, c.escapes(s.Call.Args, "passed to another goroutine")...)
			// ... unless it takes a header of a guarded container along
			seen := map[string]bool{}
			ast.Inspect(lit.Body, func(n ast.Node) bool {
				if id, ok := n.(*ast.Ident); ok && !seen[id.Name] {
					seen[id.Name] = true
					if v, ok := c.env.get(id.Name); ok && carriesAlias(v) {
						out = append(out, c.unknown(s, "alias of a guarded container captured by another goroutine: "+id.Name))
					}
				}
				return true
			})
			return out
		}
		return []LNode{c.unknown(s, "go statement")}
	case *ast.ReturnStmt:
		var out []LNode
		for _, r := range s.Results {
			out = append(out, c.expr(r)...)
		}
		// container headers handed to the caller
		var rv []ast.Expr
		if len(s.Results) > 0 {
			rv = s.Results
		} else {
			for _, n := range c.results {
				rv = append(rv, ast.NewIdent(n))
			}
		}
		if c.rets == nil { // an entry (or a closure): the caller is out of sight
			for _, r := range rv {
				if carriesAlias(c.typeOf(r)) {
					out = append(out, LNode{K: "Unknown", Site: c.x.site(c.fn, "unknown: returns an alias of a guarded container: "+c.p().src(s), c.p().at(s), "U")})
				}
			}
		} else if len(rv) > 0 {
			if v := c.typeOf(rv[0]); v.t == "MetricSlice" || v.t == "MetricLists" || v.t == "MetricMap" || v.t == "LVSlice" || v.t == "LVMap" || v.t == "HandleMap" {
				*c.rets = append(*c.rets, v)
			}
			out = append(out, c.escapes(rv[1:], "returned as a second result")...)
		}
		if c.top {
			out = append(out, LNode{K: "Return"})
		} else if c.emitOn {
			// leaving the loop that receives from the emitter without running it to the close
			if c.innerLoops == 0 {
				out = append(out, LNode{K: "Break"})
			} else {
				out = append(out, c.unknown(s, "return from a loop nested in the emitter loop"))
			}
		}
		return out
	case *ast.BranchStmt:
		if s.Label != nil {
			return []LNode{c.unknown(s, "labeled branch")}
		}
		switch s.Tok {
		case token.CONTINUE:
			if c.emitOn && c.innerLoops == 0 && c.hasSpawn {
				// back at the receive from the emitter
				return []LNode{{K: "Acq", O: c.emitMsym, L: lEmit}, {K: "Continue"}}
			}
			return []LNode{{K: "Continue"}}
		case token.BREAK:
			return []LNode{{K: "Break"}}
		}
		return []LNode{c.unknown(s, "branch")}
	case *ast.IfStmt:
		saved := c.env
		c.env = &lenv{vars: map[string]val{}, parent: saved}
		out := c.stmt(s.Init)
		out = append(out, c.expr(s.Cond)...)
		n := LNode{K: "If", Then: c.stmt(s.Body)}
		if s.Else != nil {
			n.Else = c.stmt(s.Else)
		}
		c.env = saved
		return append(out, n)
	case *ast.ForStmt:
		saved := c.env
		c.env = &lenv{vars: map[string]val{}, parent: saved}
		out := c.stmt(s.Init)
		c.innerLoops++
		body := c.loopBody(func() []LNode {
			head := append(c.stmt(s.Post), c.expr(s.Cond)...)
			return append(head, c.stmt(s.Body)...)
		})
		c.innerLoops--
		if !pureLoopBody(body) {
			out = append(out, LNode{K: "Loop", Body: body, Site: c.x.site(c.fn, "loop", c.p().at(s), "L")})
		}
		out = append(out, c.expr(s.Cond)...)
		c.env = saved
		return out
	case *ast.RangeStmt:
		saved := c.env
		c.env = &lenv{vars: map[string]val{}, parent: saved}
		out := c.expr(s.X)
		xv := c.typeOf(s.X)
		if !rootIsSelector(s.X) {
			// ranging over a local header of a guarded container reads the container's
			// elements here and at the head of every iteration (where at least the
			// locks held here are held again, or the loop is flagged)
			out = append(out, c.aliasAcc(s.X, s.X, "R")...)
		}
		var pre []LNode
		switch xv.t {
		case "MetricMap":
			pre = c.bindRangeVar(s.Value, val{t: "MetricSlice", sym: xv.sym})
		case "MetricLists":
			pre = c.bindRangeVar(s.Value, val{t: "MetricSlice", sym: xv.sym})
		case "HandleMap":
			pre = c.bindRangeVar(s.Value, val{t: "Handle", sym: xv.sym})
		case "MetricSlice":
			pre = c.bindRangeVar(s.Value, val{t: "Metric"})
		case "LVSlice":
			pre = c.bindRangeVar(s.Value, val{t: "LV", sym: xv.sym, fresh: xv.fresh})
		case "LVMap":
			pre = c.bindRangeVar(s.Value, val{t: "LV", sym: xv.sym, fresh: xv.fresh})
		case "HLinesSlice":
			pre = c.bindRangeVar(s.Value, val{t: "HLines", sym: xv.sym})
		case "Chan":
			if id, ok := s.X.(*ast.Ident); ok && c.emitter != nil {
				if msym, ok := c.emitter.chans[id.Name]; ok {
					if s.Key != nil {
						c.bindRangeVar(s.Key, val{t: "LabelSet", sym: msym})
					}
					// Supervision: the consumer is at its receive loop (Acq lEmit before
					// the loop, held at every loop head); an iteration either sees the
					// channel closed (leaves, still holding it) or takes an item (gives it
					// up while the body runs, so every other way out of the loop loses
					// it) and is back at the receive at the end of the body.
					saveOn, saveM, saveIn := c.emitOn, c.emitMsym, c.innerLoops
					c.emitOn, c.emitMsym, c.innerLoops = true, msym, 0
					var body []LNode
					if c.hasSpawn {
						out = append(out, LNode{K: "Acq", O: msym, L: lEmit})
						body = append(body, LNode{K: "If", Then: []LNode{{K: "Break"}}}, LNode{K: "Rel", O: msym, L: lEmit})
					}
					body = append(body, c.emitterBody(s, msym)...) // the emitter reads the next label value
					body = append(body, c.stmt(s.Body)...)
					if c.hasSpawn {
						body = append(body, LNode{K: "Acq", O: msym, L: lEmit})
					}
					c.emitOn, c.emitMsym, c.innerLoops = saveOn, saveM, saveIn
					out = append(out, LNode{K: "Loop", Body: body, Site: c.x.site(c.fn, "loop", c.p().at(s), "L")})
					c.env = saved
					return out
				}
			}
			pre = []LNode{c.unknown(s, "range over an unrecognised channel")}
		default:
			if s.Key != nil {
				c.bindRangeVar(s.Key, val{t: "Other"})
			}
			if s.Value != nil {
				c.bindRangeVar(s.Value, val{t: "Other"})
			}
		}
		if xv.t != "Chan" && s.Key != nil {
			if id, ok := s.Key.(*ast.Ident); ok && id.Name != "_" {
				c.env.vars[id.Name] = val{t: "Other"}
			}
		}
		c.innerLoops++
		body := c.loopBody(func() []LNode { return append(append([]LNode{}, pre...), c.stmt(s.Body)...) })
		c.innerLoops--
		if !pureLoopBody(body) {
			out = append(out, LNode{K: "Loop", Body: body, Site: c.x.site(c.fn, "loop", c.p().at(s), "L")})
		}
		c.env = saved
		return out
	case *ast.SwitchStmt, *ast.TypeSwitchStmt, *ast.SelectStmt:
		return c.arms(s)
	case *ast.LabeledStmt:
		return []LNode{c.unknown(s, "label")}
	}
	return []LNode{c.unknown(s, "statement")}
}

// loopBody translates a loop body.  A container variable of an enclosing scope
// that starts to alias a guarded container inside the body does so at the top
// of the next iteration too: translate again with what the first pass found
// out (the first result is dropped, the deferred unlocks it registered too).
func (c *lctx) loopBody(f func() []LNode) []LNode {
	aliased := func() map[string]bool {
		m := map[string]bool{}
		depth := 0
		for s := c.env; s != nil; s = s.parent {
			for n, v := range s.vars {
				if carriesAlias(v) {
					m[fmt.Sprint(depth, ":", n)] = true
				}
			}
			depth++
		}
		return m
	}
	for pass := 0; ; pass++ {
		before := aliased()
		nd := len(*c.defers)
		chans := map[string]int{}
		if c.emitter != nil {
			for k, v := range c.emitter.chans {
				chans[k] = v
			}
		}
		body := f()
		grew := false
		for k := range aliased() {
			if !before[k] {
				grew = true
			}
		}
		if !grew || pass >= 3 {
			return body
		}
		*c.defers = (*c.defers)[len(*c.defers)-nd:]
		if c.emitter != nil {
			c.emitter.chans = chans
		}
	}
}

// pureLoopBody: no lock operation, shared access, rebinding, return or unknown
// inside: such a loop is omitted from the IR (it has no event but the markers).
func pureLoopBody(ns []LNode) bool {
	for _, n := range ns {
		switch n.K {
		case "Continue", "Break":
		case "If":
			if !pureLoopBody(n.Then) || !pureLoopBody(n.Else) {
				return false
			}
		default:
			return false
		}
	}
	return true
}

func (c *lctx) setVar(name string, v val) {
	for s := c.env; s != nil; s = s.parent {
		if _, ok := s.vars[name]; ok {
			s.vars[name] = v
			return
		}
	}
	c.env.vars[name] = v
}

func (c *lctx) arms(s ast.Stmt) []LNode {
	var out []LNode
	var clauses []ast.Stmt
	saved := c.env
	c.env = &lenv{vars: map[string]val{}, parent: saved}
	defer func() { c.env = saved }()
	switch s := s.(type) {
	case *ast.SwitchStmt:
		out = append(out, c.stmt(s.Init)...)
		out = append(out, c.expr(s.Tag)...)
		clauses = s.Body.List
	case *ast.TypeSwitchStmt:
		out = append(out, c.stmt(s.Init)...)
		switch a := s.Assign.(type) {
		case *ast.ExprStmt:
			out = append(out, c.expr(a.X)...)
		case *ast.AssignStmt:
			for _, r := range a.Rhs {
				out = append(out, c.expr(r)...)
			}
		}
		clauses = s.Body.List
	case *ast.SelectStmt:
		clauses = s.Body.List
	}
	hasDefault := false
	var bodies [][]LNode
	for _, cl := range clauses {
		var body []ast.Stmt
		var pre []LNode
		switch cl := cl.(type) {
		case *ast.CaseClause:
			if cl.List == nil {
				hasDefault = true
			}
			for _, e := range cl.List {
				out = append(out, c.expr(e)...)
			}
			body = cl.Body
		case *ast.CommClause:
			if cl.Comm == nil {
				hasDefault = true
			} else {
				pre = c.stmt(cl.Comm)
			}
			body = cl.Body
		}
		if n := len(body); n > 0 {
			if b, ok := body[n-1].(*ast.BranchStmt); ok && b.Label == nil && b.Tok == token.BREAK {
				body = body[:n-1]
			}
		}
		// any other break inside an arm refers to the switch, which the IR cannot express
		bad := false
		for _, st := range body {
			ast.Inspect(st, func(n ast.Node) bool {
				switch x := n.(type) {
				case *ast.ForStmt, *ast.RangeStmt, *ast.SwitchStmt, *ast.TypeSwitchStmt, *ast.SelectStmt, *ast.FuncLit:
					return false
				case *ast.BranchStmt:
					if x.Tok == token.BREAK || x.Tok == token.FALLTHROUGH {
						bad = true
					}
				}
				return true
			})
		}
		if bad {
			bodies = append(bodies, []LNode{c.unknown(cl, "break or fallthrough inside a switch arm")})
			continue
		}
		bodies = append(bodies, append(pre, c.block(body)...))
	}
	if !hasDefault {
		bodies = append(bodies, nil)
	}
	var chain []LNode
	for i := len(bodies) - 1; i >= 0; i-- {
		if i == len(bodies)-1 {
			chain = bodies[i]
			continue
		}
		chain = []LNode{{K: "If", Then: bodies[i], Else: chain}}
	}
	return append(out, chain...)
}

// Entry translates one listed function as a thread entry point: receiver
// symbol 1, *Metric / *Store parameters get their own symbols; parameters
// named in freshParams are unpublished objects.
func (x *LockXlate) Entry(pkg, fn string, freshParams map[string]bool) ([]LNode, error) {
	d := x.Pkgs[pkg].Funcs[fn]
	if d == nil || d.Body == nil {
		return nil, fmt.Errorf("%s.%s not found", pkg, fn)
	}
	nsym := 1
	env := &lenv{vars: map[string]val{}}
	if d.Recv != nil && len(d.Recv.List) == 1 && len(d.Recv.List[0].Names) == 1 {
		t := declType(d.Recv.List[0].Type)
		if t == "Other" && typeName(d.Recv.List[0].Type) == "Exporter" {
			t = "Other"
		}
		rn := d.Recv.List[0].Names[0].Name
		env.vars[rn] = val{t: t, sym: 1, fresh: freshParams["recv"]}
	}
	if d.Type.Params != nil {
		for _, f := range d.Type.Params.List {
			for _, n := range f.Names {
				v := val{t: declType(f.Type)}
				if _, isEll := f.Type.(*ast.Ellipsis); isEll {
					v = val{t: "Other"}
				}
				if v.t == "Metric" || v.t == "Store" || datumTypes[v.t] {
					nsym++
					v.sym = nsym
				}
				if ck := containerKind(f.Type); ck != "" {
					v = val{t: ck, sym: -1} // the caller's own collection
				}
				if freshParams[n.Name] {
					v.fresh = true
				}
				env.vars[n.Name] = v
			}
		}
	}
	var defers []LNode
	c := &lctx{x: x, pkg: pkg, fn: fn, env: env, nsym: &nsym, top: true, defers: &defers,
		emitter: &emitterInfo{chans: map[string]int{}}, hasSpawn: spawnsEmitter(d.Body)}
	if d.Type.Results != nil {
		for _, f := range d.Type.Results.List {
			for _, n := range f.Names {
				c.results = append(c.results, n.Name)
				if ck := containerKind(f.Type); ck != "" {
					env.vars[n.Name] = val{t: ck, sym: -1}
				}
			}
		}
	}
	x.retTypes = map[*ast.CallExpr]val{}
	return c.block(d.Body.List), nil
}
