//go:build verif

package xlate

import "fmt"

// SelfTestEmit: regression test of the emitter translator on fixed snippets
// (the reviewed golden outputs).  Run by the C09 harness before every use.
var emitSelfSrcs = []struct{ name, body, want string; ok bool }{
	{"repo", `
	for _, lv := range m.LabelValues {
		ls := &LabelSet{zip(m.Keys, lv.Labels), lv.Value}
		c <- ls
	}
	close(c)`, "Range(Plain Send ) Close ", true},
	{"deferred-close", `
	defer close(c)
	n := 0
	for i, lv := range m.LabelValues {
		c <- &LabelSet{zip(m.Keys, lv.Labels), lv.Value}
		n += i
	}
	glog.V(2).Infof("%d", n)`, "DeferClose Plain Range(Send Plain ) Plain ", true},
	{"timer", `
	defer close(c)
	t := time.NewTimer(emitSendTimeout)
	defer t.Stop()
	for _, lv := range m.LabelValues {
		ls := &LabelSet{zip(m.Keys, lv.Labels), lv.Value}
		if !t.Stop() {
			select {
			case <-t.C:
			default:
			}
		}
		t.Reset(emitSendTimeout)
		select {
		case c <- ls:
		case <-t.C:
			glog.Warningf("giving up on %s", m.Name)
			return
		}
	}`, "DeferClose Plain Plain Range(Plain Plain Plain SendWithin[5000,Return] ) ", false},
	{"after", `
	for _, lv := range m.LabelValues {
		ls := &LabelSet{zip(m.Keys, lv.Labels), lv.Value}
		select {
		case c <- ls:
		case <-time.After(2*time.Second + 500*time.Millisecond):
			continue
		}
	}
	close(c)`, "Range(Plain SendWithin[2500,Continue] ) Close ", false},
	{"try-send", `
	for _, lv := range m.LabelValues {
		ls := &LabelSet{zip(m.Keys, lv.Labels), lv.Value}
		select {
		case c <- ls:
		default:
			dropped++
		}
	}
	close(c)`, "Range(Plain SendWithin[0,Next] ) Close ", false},
	{"select-break", `
	for _, lv := range m.LabelValues {
		ls := &LabelSet{zip(m.Keys, lv.Labels), lv.Value}
		select {
		case c <- ls:
		case <-time.After(emitSendTimeout):
			break
		}
	}
	close(c)`, "Range(Plain SendWithin[5000,Next] ) Close ", false},
	{"done-channel", `
	for _, lv := range m.LabelValues {
		ls := &LabelSet{zip(m.Keys, lv.Labels), lv.Value}
		select {
		case c <- ls:
		case <-m.done:
			close(c)
			return
		}
	}
	close(c)`, "Range(Plain Unknown ) Close ", false},
	{"skip", `
	for _, lv := range m.LabelValues {
		if lv.Value == nil {
			continue
		}
		c <- &LabelSet{zip(m.Keys, lv.Labels), lv.Value}
	}
	close(c)`, "Range(Unknown Send ) Close ", false},
	{"early-exit", `
	for i, lv := range m.LabelValues {
		c <- &LabelSet{zip(m.Keys, lv.Labels), lv.Value}
		_ = i
		break
	}
	close(c)`, "Range(Send Plain Break ) Close ", false},
	{"index-loop", `
	for i := 0; i < len(m.LabelValues); i++ {
		lv := m.LabelValues[i]
		c <- &LabelSet{zip(m.Keys, lv.Labels), lv.Value}
	}
	close(c)`, "Unknown Close ", false},
	{"goroutine", `
	go func() {
		for _, lv := range m.LabelValues {
			c <- &LabelSet{zip(m.Keys, lv.Labels), lv.Value}
		}
		close(c)
	}()`, "Unknown ", false},
	{"same-element", `
	first := m.LabelValues[0]
	for _, lv := range m.LabelValues {
		_ = lv
		c <- &LabelSet{zip(m.Keys, first.Labels), first.Value}
	}
	close(c)`, "Plain Range(Plain Unknown ) Close ", false},
	{"no-close", `
	for _, lv := range m.LabelValues {
		c <- &LabelSet{zip(m.Keys, lv.Labels), lv.Value}
	}`, "Range(Send ) ", false},
	{"two-sends", `
	for _, lv := range m.LabelValues {
		ls := &LabelSet{zip(m.Keys, lv.Labels), lv.Value}
		c <- ls
		c <- ls
	}
	close(c)`, "Range(Plain Send Send ) Close ", false},
	{"locked", `
	m.RLock()
	defer m.RUnlock()
	for _, lv := range m.LabelValues {
		c <- &LabelSet{zip(m.Keys, lv.Labels), lv.Value}
	}
	close(c)`, "Unknown Unknown Range(Send ) Close ", false},
	{"blocking-receive", `
	for _, lv := range m.LabelValues {
		<-m.tick
		c <- &LabelSet{zip(m.Keys, lv.Labels), lv.Value}
	}
	close(c)`, "Range(Unknown Send ) Close ", false},
}

func SelfTestEmit() error {
	for _, t := range emitSelfSrcs {
		src := "package metrics\n\nconst emitSendTimeout = 5 * time.Second\n\nfunc (m *Metric) EmitLabelSets(c chan *LabelSet) {" + t.body + "\n}\n"
		p, err := LoadSrc(src)
		if err != nil {
			return fmt.Errorf("%s: %v", t.name, err)
		}
		ir, err := EmitProtoIR(p)
		if err != nil {
			return fmt.Errorf("%s: %v", t.name, err)
		}
		if got := EmitKinds(ir); got != t.want {
			return fmt.Errorf("%s:\n got  %s\n want %s\n (%v)", t.name, got, t.want, EmitUnknowns(ir))
		}
		if ok, why := EmitShapeOK(ir); ok != t.ok {
			return fmt.Errorf("%s: shape verdict %v (%s), want %v", t.name, ok, why, t.ok)
		}
	}
	return nil
}
