//go:build verif

package xlate

import "fmt"

// SelfTestLock: regression test of the lock translator + Go checker on a fixed
// snippet (reviewed expectations).  Run by the C11 harness before every use.
const lockSelfSrc = `package metrics

type Metric struct {
	sync.RWMutex
	Name string
	LabelValues []*LabelValue
	labelValuesMap map[string]*LabelValue
}
type Store struct { searchMu sync.RWMutex; Metrics map[string][]*Metric }

func (m *Metric) find(k string) *LabelValue {
	lv, ok := m.labelValuesMap[k]
	if ok {
		return lv
	}
	return nil
}

func (m *Metric) Good(k string) {
	if k == "" {
		return
	}
	m.Lock()
	defer m.Unlock()
	if lv := m.find(k); lv != nil {
		lv.Expiry = 1
		return
	}
	m.LabelValues = append(m.LabelValues, &LabelValue{})
}

func (m *Metric) ReadLockedWrite(k string) {
	m.RLock()
	defer m.RUnlock()
	delete(m.labelValuesMap, k)
}

func (s *Store) Scan() {
	s.searchMu.RLock()
	defer s.searchMu.RUnlock()
	for _, ml := range s.Metrics {
		for _, m := range ml {
			if m.Name == "" {
				continue
			}
			m.RLock()
			for _, lv := range m.LabelValues {
				_ = lv.Expiry
			}
			m.RUnlock()
			_ = len(m.LabelValues)
		}
	}
}

func (m *Metric) SplitCreate(k string) {
	m.RLock()
	lv := m.find(k)
	m.RUnlock()
	if lv == nil {
		m.Lock()
		defer m.Unlock()
		m.LabelValues = append(m.LabelValues, &LabelValue{})
		n := 0
		for i := 0; i < len(k); i++ {
			if k[i] == '-' {
				continue
			}
			n++
		}
		m.labelValuesMap[k] = &LabelValue{}
	}
}

func (m *Metric) Recheck(k string) {
	m.RLock()
	lv := m.find(k)
	m.RUnlock()
	if lv == nil {
		m.Lock()
		defer m.Unlock()
		if m.find(k) == nil {
			m.LabelValues = append(m.LabelValues, &LabelValue{})
			m.labelValuesMap[k] = &LabelValue{}
		}
	}
}

func (s *Store) Leaky() {
	for _, ml := range s.Metrics {
		for _, m := range ml {
			m.RLock()
			if m.Name == "" {
				continue
			}
			m.RUnlock()
		}
	}
}
`

func SelfTestLock() error {
	p, err := LoadSrc(lockSelfSrc)
	if err != nil {
		return err
	}
	x := NewLockXlate(p, p, p)
	want := map[string][]string{
		"Metric.Good":            {},
		"Metric.ReadLockedWrite": {"Metric.ReadLockedWrite:Metric.labelValuesMap:W"},
		"Store.Scan":             {"Store.Scan:Metric.LabelValues:R"},
		// no searchMu; the inner loop is entered again holding a lock it did not hold at its head is fine,
		// but the read of s.Metrics is unguarded
		"Store.Leaky": {"Store.Leaky:Store.Metrics:R"},
	}
	wantStale := map[string][]string{
		"Metric.Good":        {},
		"Metric.SplitCreate": {"Metric.SplitCreate:Metric.labelValuesMap:W"},
		"Metric.Recheck":     {},
	}
	for fn, w := range wantStale {
		ir, err := x.Entry("metrics", fn, nil)
		if err != nil {
			return err
		}
		if lv := LockViolations(ir); len(lv) != 0 {
			return fmt.Errorf("%s: lockset violations %v, want none", fn, lv)
		}
		var got []string
		for _, s := range StaleViolations(ir) {
			st := x.Sites[s]
			got = append(got, st.Fn+":"+st.Field+":"+st.Kind)
		}
		if fmt.Sprint(got) != fmt.Sprint(w) {
			return fmt.Errorf("%s (stale): got %v want %v\nIR %s", fn, got, w, LockCoq(ir))
		}
	}
	for fn, w := range want {
		ir, err := x.Entry("metrics", fn, nil)
		if err != nil {
			return err
		}
		var got []string
		for _, s := range LockViolations(ir) {
			st := x.Sites[s]
			got = append(got, st.Fn+":"+st.Field+":"+st.Kind)
		}
		if fmt.Sprint(got) != fmt.Sprint(w) {
			return fmt.Errorf("%s: got %v want %v\nIR %s", fn, got, w, LockCoq(ir))
		}
	}
	return nil
}
