//go:build verif

package xlate

import "fmt"

// SelfTestLock: regression test of the lock translator + Go checker on a fixed
// snippet (reviewed expectations).  Run by the C11 harness before every use.
const lockSelfSrc = `package metrics

type Metric struct {
	sync.RWMutex
	Name string
	LabelValues []*LabelValue
	labelValuesMap map[string]*LabelValue
}
type Store struct { searchMu sync.RWMutex; Metrics map[string][]*Metric }

func (m *Metric) find(k string) *LabelValue {
	lv, ok := m.labelValuesMap[k]
	if ok {
		return lv
	}
	return nil
}

func (m *Metric) Good(k string) {
	if k == "" {
		return
	}
	m.Lock()
	defer m.Unlock()
	if lv := m.find(k); lv != nil {
		lv.Expiry = 1
		return
	}
	m.LabelValues = append(m.LabelValues, &LabelValue{})
}

func (m *Metric) ReadLockedWrite(k string) {
	m.RLock()
	defer m.RUnlock()
	delete(m.labelValuesMap, k)
}

func (s *Store) Scan() {
	s.searchMu.RLock()
	defer s.searchMu.RUnlock()
	for _, ml := range s.Metrics {
		for _, m := range ml {
			if m.Name == "" {
				continue
			}
			m.RLock()
			for _, lv := range m.LabelValues {
				_ = lv.Expiry
			}
			m.RUnlock()
			_ = len(m.LabelValues)
		}
	}
}

func (m *Metric) SplitCreate(k string) {
	m.RLock()
	lv := m.find(k)
	m.RUnlock()
	if lv == nil {
		m.Lock()
		defer m.Unlock()
		m.LabelValues = append(m.LabelValues, &LabelValue{})
		n := 0
		for i := 0; i < len(k); i++ {
			if k[i] == '-' {
				continue
			}
			n++
		}
		m.labelValuesMap[k] = &LabelValue{}
	}
}

func (m *Metric) Recheck(k string) {
	m.RLock()
	lv := m.find(k)
	m.RUnlock()
	if lv == nil {
		m.Lock()
		defer m.Unlock()
		if m.find(k) == nil {
			m.LabelValues = append(m.LabelValues, &LabelValue{})
			m.labelValuesMap[k] = &LabelValue{}
		}
	}
}

func (s *Store) Leaky() {
	for _, ml := range s.Metrics {
		for _, m := range ml {
			m.RLock()
			if m.Name == "" {
				continue
			}
			m.RUnlock()
		}
	}
}

// ---- slice-header aliases of guarded containers ----

// the seeded shape: list headers copied under the lock, walked after the unlock
func (s *Store) RangeHeaders(f func(*Metric) error) error {
	s.searchMu.RLock()
	lists := make([][]*Metric, 0, len(s.Metrics))
	for _, ml := range s.Metrics {
		lists = append(lists, ml)
	}
	s.searchMu.RUnlock()
	for _, ml := range lists {
		for _, m := range ml {
			if err := f(m); err != nil {
				return err
			}
		}
	}
	return nil
}

// its correct counterpart: the ELEMENTS are copied under the lock
func (s *Store) RangeElems(f func(*Metric) error) error {
	s.searchMu.RLock()
	ms := make([]*Metric, 0, len(s.Metrics))
	for _, ml := range s.Metrics {
		ms = append(ms, ml...)
	}
	s.searchMu.RUnlock()
	for _, m := range ms {
		if err := f(m); err != nil {
			return err
		}
	}
	return nil
}

// per-list clones kept in a list of lists: still no alias
func (s *Store) RangeClones(f func(*Metric) error) error {
	s.searchMu.RLock()
	var lists [][]*Metric
	for _, ml := range s.Metrics {
		cl := make([]*Metric, len(ml))
		copy(cl, ml)
		lists = append(lists, cl)
	}
	s.searchMu.RUnlock()
	for _, ml := range lists {
		for _, m := range ml {
			if err := f(m); err != nil {
				return err
			}
		}
	}
	return nil
}

func (s *Store) FindUnlocked(name string) *Metric {
	s.searchMu.RLock()
	ml := s.Metrics[name]
	n := len(ml)
	s.searchMu.RUnlock()
	if n == 0 {
		return nil
	}
	return ml[0]
}

func (s *Store) FindLocked(name string) *Metric {
	s.searchMu.RLock()
	defer s.searchMu.RUnlock()
	var ml = s.Metrics[name]
	for i := range ml {
		if ml[i].Name == name {
			return ml[i]
		}
	}
	return nil
}

// the clone idiom un-aliases the variable
func (s *Store) CloneThenWalk(name string) int {
	s.searchMu.RLock()
	ml := s.Metrics[name]
	ml = append([]*Metric(nil), ml...)
	s.searchMu.RUnlock()
	n := 0
	for _, m := range ml {
		if m.Name != "" {
			n++
		}
	}
	return n
}

// ... but not when it happens on one path only
func (s *Store) CloneSometimes(name string, c bool) int {
	s.searchMu.RLock()
	ml := s.Metrics[name]
	if c {
		ml = append([]*Metric(nil), ml...)
	}
	s.searchMu.RUnlock()
	n := 0
	for range ml {
		n++
	}
	return n
}

// a map of headers
func (s *Store) MapOfHeaders() int {
	cp := make(map[string][]*Metric)
	s.searchMu.RLock()
	for k, ml := range s.Metrics {
		cp[k] = ml
	}
	s.searchMu.RUnlock()
	n := 0
	for _, ml := range cp {
		for _, m := range ml {
			if m.Name != "" {
				n++
			}
		}
	}
	return n
}

// the map itself
func (s *Store) MapAlias() int {
	s.searchMu.RLock()
	mm := s.Metrics
	s.searchMu.RUnlock()
	return len(mm["x"])
}

// through a helper that returns the header
func (s *Store) list(name string) []*Metric { return s.Metrics[name] }

func (s *Store) ViaHelper(name string) int {
	s.searchMu.RLock()
	ml := s.list(name)
	s.searchMu.RUnlock()
	n := 0
	for _, m := range ml {
		if m.Name != "" {
			n++
		}
	}
	return n
}

func (s *Store) ViaHelperLocked(name string) int {
	s.searchMu.RLock()
	defer s.searchMu.RUnlock()
	n := 0
	for _, m := range s.list(name) {
		if m.Name != "" {
			n++
		}
	}
	return n
}

// handing the header to the caller
func (s *Store) LeakHeader(name string) []*Metric {
	s.searchMu.RLock()
	defer s.searchMu.RUnlock()
	return s.Metrics[name]
}

// carried around the loop: used at the top of the next iteration
func (s *Store) LoopCarried(names []string) int {
	var cur []*Metric
	n := 0
	for _, name := range names {
		for _, m := range cur {
			if m.Name != "" {
				n++
			}
		}
		s.searchMu.RLock()
		cur = s.Metrics[name]
		s.searchMu.RUnlock()
	}
	return n
}

// a write through the alias, after the write lock is gone
func (s *Store) WriteThroughAlias(name string) {
	s.searchMu.Lock()
	ml := s.Metrics[name]
	s.searchMu.Unlock()
	if len(ml) > 0 {
		ml[0] = nil
	}
}

// the same for a metric's label values
func (m *Metric) LabelsAfterUnlock() int {
	m.RLock()
	lvs := m.LabelValues
	m.RUnlock()
	n := 0
	for _, lv := range lvs {
		if lv != nil {
			n++
		}
	}
	return n
}

func (m *Metric) LabelsCopied() int {
	m.RLock()
	lvs := make([]*LabelValue, len(m.LabelValues))
	copy(lvs, m.LabelValues)
	m.RUnlock()
	n := 0
	for _, lv := range lvs {
		if lv != nil {
			n++
		}
	}
	return n
}

func sortMetrics(ms []*Metric) {}

func (s *Store) PassedOn(name string) {
	s.searchMu.RLock()
	ml := s.Metrics[name]
	s.searchMu.RUnlock()
	sort.Slice(ml, nil)
}
`

func SelfTestLock() error {
	p, err := LoadSrc(lockSelfSrc)
	if err != nil {
		return err
	}
	x := NewLockXlate(p, p, p)
	want := map[string][]string{
		"Metric.Good":            {},
		"Metric.ReadLockedWrite": {"Metric.ReadLockedWrite:Metric.labelValuesMap:W"},
		"Store.Scan":             {"Store.Scan:Metric.LabelValues:R"},
		// no searchMu; the inner loop is entered again holding a lock it did not hold at its head is fine,
		// but the read of s.Metrics is unguarded
		// (the map and, on another line, the elements of its lists)
		"Store.Leaky": {"Store.Leaky:Store.Metrics:R", "Store.Leaky:Store.Metrics:R"},
		// aliases of guarded containers
		"Store.RangeHeaders":       {"Store.RangeHeaders:Store.Metrics:R"},
		"Store.RangeElems":         {},
		"Store.RangeClones":        {},
		"Store.FindUnlocked":       {"Store.FindUnlocked:Store.Metrics:R"},
		"Store.FindLocked":         {},
		"Store.CloneThenWalk":      {},
		"Store.CloneSometimes":     {"Store.CloneSometimes:Store.Metrics:R"},
		"Store.MapOfHeaders":       {"Store.MapOfHeaders:Store.Metrics:R"},
		"Store.MapAlias":           {"Store.MapAlias:Store.Metrics:R"},
		"Store.ViaHelper":          {"Store.ViaHelper:Store.Metrics:R"},
		"Store.ViaHelperLocked":    {},
		"Store.LeakHeader":         {"Store.LeakHeader:unknown: returns an alias of a guarded container: return s.Metrics[name]:U"},
		"Store.LoopCarried":        {"Store.LoopCarried:Store.Metrics:R"},
		"Store.WriteThroughAlias":  {"Store.WriteThroughAlias:Store.Metrics:W"},
		"Metric.LabelsAfterUnlock": {"Metric.LabelsAfterUnlock:Metric.LabelValues:R"},
		"Metric.LabelsCopied":      {},
		"Store.PassedOn":           {"Store.PassedOn:unknown: alias of a guarded container passed to an untranslated function: ml:U"},
	}
	wantStale := map[string][]string{
		"Metric.Good":        {},
		"Metric.SplitCreate": {"Metric.SplitCreate:Metric.labelValuesMap:W"},
		"Metric.Recheck":     {},
	}
	for fn, w := range wantStale {
		ir, err := x.Entry("metrics", fn, nil)
		if err != nil {
			return err
		}
		if lv := LockViolations(ir); len(lv) != 0 {
			return fmt.Errorf("%s: lockset violations %v, want none", fn, lv)
		}
		var got []string
		for _, s := range StaleViolations(ir) {
			st := x.Sites[s]
			got = append(got, st.Fn+":"+st.Field+":"+st.Kind)
		}
		if fmt.Sprint(got) != fmt.Sprint(w) {
			return fmt.Errorf("%s (stale): got %v want %v\nIR %s", fn, got, w, LockCoq(ir))
		}
	}
	for fn, w := range want {
		ir, err := x.Entry("metrics", fn, nil)
		if err != nil {
			return err
		}
		var got []string
		for _, s := range LockViolations(ir) {
			st := x.Sites[s]
			got = append(got, st.Fn+":"+st.Field+":"+st.Kind)
		}
		if fmt.Sprint(got) != fmt.Sprint(w) {
			return fmt.Errorf("%s: got %v want %v\nIR %s", fn, got, w, LockCoq(ir))
		}
	}
	return nil
}
