//go:build verif

package xlate

// seqir.go: ordered-events IR (coq/Export/SeqIR.v) of the runtime's goroutines:
// Runtime.CompileAndRun, Runtime.startVM (+ its goroutine with VM.Run inlined),
// Runtime.UnloadProgram, the line loop of runtime.New.  go/parser + go/ast
// only.  Recognised: handleMu lock operations (incl. defer), accesses to
// r.handles, sends/closes on <x>.lines, receives from <x>.done / initDone,
// close(done|signalQuit), r.ms.Add, r.startVM, wg.Add/Done/Wait,
// v.ProcessLogLine, range over the `lines` channel, if/else, range/for loops,
// return (deferred calls are replayed before every return and at the end),
// go func literals (a Spawn event; the literal is its own entry).  Any other
// channel operation, lock operation, defer, go, select, labeled or loop
// branch becomes QUnknown, which the verified checker rejects.

import (
	"fmt"
	"go/ast"
	"go/token"
	"strings"
)

type QNode struct {
	K    string  `json:"k"` // Ev If Loop Return Unknown
	C    string  `json:"c,omitempty"`
	Site int     `json:"site"`
	Then []QNode `json:"then,omitempty"`
	Else []QNode `json:"else,omitempty"`
	Body []QNode `json:"body,omitempty"`
	Why  string  `json:"why,omitempty"`
	Pos  string  `json:"pos,omitempty"`
}

func SeqCoq(ns []QNode) string {
	xs := make([]string, len(ns))
	for i, n := range ns {
		switch n.K {
		case "Ev":
			xs[i] = fmt.Sprintf("QEv %s %d", n.C, n.Site)
		case "If":
			xs[i] = "QIf (qblock_of " + SeqCoq(n.Then) + ") (qblock_of " + SeqCoq(n.Else) + ")"
		case "Loop":
			xs[i] = fmt.Sprintf("QLoop (qblock_of %s) %d", SeqCoq(n.Body), n.Site)
		case "Return":
			xs[i] = "QReturn"
		default:
			xs[i] = fmt.Sprintf("QUnknown %d", n.Site)
		}
	}
	return "[" + strings.Join(xs, "; ") + "]"
}

type qctx struct {
	p         *Pkg
	vmPkg     *Pkg
	fn        string
	nsite     *int
	sites     *[]string // site -> "fn pos what"
	defers    []QNode   // in order of registration
	lineRecv  string    // event class of one iteration of `range lines`
	lineEnd   string
	inlineRun bool
	depth     int
}

func (c *qctx) site(n ast.Node, what string) int {
	*c.nsite++
	*c.sites = append(*c.sites, fmt.Sprintf("%s %s %s", c.fn, c.p.at(n), what))
	return *c.nsite
}

func (c *qctx) ev(n ast.Node, class string) QNode {
	return QNode{K: "Ev", C: class, Site: c.site(n, class), Pos: c.p.at(n)}
}

func (c *qctx) unknown(n ast.Node, why string) QNode {
	return QNode{K: "Unknown", Site: c.site(n, "unknown: "+why), Why: why + ": " + c.p.src(n), Pos: c.p.at(n)}
}

func selName(e ast.Expr) string {
	switch x := e.(type) {
	case *ast.SelectorExpr:
		return x.Sel.Name
	case *ast.Ident:
		return x.Name
	}
	return ""
}

func mentionsHandles(e ast.Node) bool {
	found := false
	ast.Inspect(e, func(n ast.Node) bool {
		if s, ok := n.(*ast.SelectorExpr); ok && s.Sel.Name == "handles" {
			found = true
		}
		return !found
	})
	return found
}

// call classifies one call expression; ok=false: not an event by itself.
func (c *qctx) call(call *ast.CallExpr) ([]QNode, bool) {
	if id, ok := call.Fun.(*ast.Ident); ok {
		switch id.Name {
		case "close":
			if len(call.Args) == 1 {
				var pre []QNode
				if mentionsHandles(call.Args[0]) {
					pre = append(pre, c.ev(call, "ReadHandles"))
				}
				switch selName(call.Args[0]) {
				case "lines":
					return append(pre, c.ev(call, "CloseLines")), true
				case "done":
					return append(pre, c.ev(call, "CloseDone")), true
				case "signalQuit":
					return append(pre, c.ev(call, "CloseQuit")), true
				}
			}
			return []QNode{c.unknown(call, "close of an unrecognised channel")}, true
		case "delete":
			if len(call.Args) == 2 && selName(call.Args[0]) == "handles" {
				return []QNode{c.ev(call, "DeleteHandle")}, true
			}
		case "panic":
			return []QNode{c.unknown(call, "panic")}, true
		}
		return nil, false
	}
	sel, ok := call.Fun.(*ast.SelectorExpr)
	if !ok {
		return nil, false
	}
	recv := selName(sel.X)
	switch sel.Sel.Name {
	case "Lock", "Unlock", "RLock", "RUnlock", "TryLock", "TryRLock":
		if recv == "handleMu" {
			cl := map[string]string{"Lock": "AcqW", "Unlock": "RelW", "RLock": "AcqR", "RUnlock": "RelR"}[sel.Sel.Name]
			if cl != "" {
				return []QNode{c.ev(call, cl)}, true
			}
		}
		return []QNode{c.unknown(call, "lock operation outside the vocabulary")}, true
	case "Add":
		if recv == "ms" {
			return []QNode{c.ev(call, "CallAdd")}, true
		}
		if recv == "wg" {
			return []QNode{c.ev(call, "WgAdd")}, true
		}
	case "Done":
		if recv == "wg" && len(call.Args) == 0 {
			return []QNode{c.ev(call, "WgDone")}, true
		}
	case "Wait":
		if recv == "wg" {
			return []QNode{c.ev(call, "WgWait")}, true
		}
	case "startVM":
		return []QNode{c.ev(call, "CallStartVM")}, true
	case "ProcessLogLine":
		return []QNode{c.ev(call, "VmProcess")}, true
	case "Run":
		if recv == "vm" && c.inlineRun && c.vmPkg != nil && c.depth < 2 {
			if d := c.vmPkg.Funcs["VM.Run"]; d != nil && d.Body != nil {
				sub := &qctx{p: c.vmPkg, vmPkg: c.vmPkg, fn: "VM.Run", nsite: c.nsite, sites: c.sites,
					lineRecv: "VmRecv", lineEnd: "VmClosed", depth: c.depth + 1}
				body := sub.block(d.Body.List)
				// an inlined callee: its returns end the callee only; VM.Run has none besides the end
				for _, n := range body {
					if containsReturn(n) {
						return []QNode{c.unknown(call, "VM.Run returns early")}, true
					}
				}
				return append(body, sub.runDefers()...), true
			}
			return []QNode{c.unknown(call, "VM.Run not found")}, true
		}
	}
	return nil, false
}

func containsReturn(n QNode) bool {
	if n.K == "Return" {
		return true
	}
	for _, l := range [][]QNode{n.Then, n.Else, n.Body} {
		for _, x := range l {
			if containsReturn(x) {
				return true
			}
		}
	}
	return false
}

// expr scans an expression in evaluation order for events.
func (c *qctx) expr(e ast.Expr) []QNode {
	var out []QNode
	if e == nil {
		return nil
	}
	readH := false
	var walk func(n ast.Node)
	walk = func(n ast.Node) {
		switch x := n.(type) {
		case nil:
			return
		case *ast.FuncLit:
			out = append(out, c.unknown(x, "function literal"))
			return
		case *ast.UnaryExpr:
			if x.Op == token.ARROW {
				walk(x.X)
				switch selName(x.X) {
				case "done":
					out = append(out, c.ev(x, "RecvDone"))
				case "initDone":
					out = append(out, c.ev(x, "RecvInit"))
				default:
					out = append(out, c.unknown(x, "receive from an unrecognised channel"))
				}
				return
			}
		case *ast.CallExpr:
			for _, a := range x.Args {
				walk(a)
			}
			if ns, ok := c.call(x); ok {
				out = append(out, ns...)
				return
			}
			walk(x.Fun)
			return
		case *ast.SelectorExpr:
			if x.Sel.Name == "handles" && !readH {
				readH = true
				out = append(out, c.ev(x, "ReadHandles"))
			}
			walk(x.X)
			return
		}
		// generic children
		first := true
		ast.Inspect(n, func(ch ast.Node) bool {
			if ch == nil {
				return false
			}
			if first {
				first = false
				return true
			}
			walk(ch)
			return false
		})
	}
	walk(e)
	return out
}

func (c *qctx) runDefers() []QNode {
	var out []QNode
	for i := len(c.defers) - 1; i >= 0; i-- {
		out = append(out, c.defers[i])
	}
	return out
}

func (c *qctx) block(ss []ast.Stmt) []QNode {
	var out []QNode
	for _, s := range ss {
		out = append(out, c.stmt(s)...)
	}
	return out
}

func hasUnknownOrEvent(ns []QNode) bool { return len(ns) > 0 }

func (c *qctx) stmt(s ast.Stmt) []QNode {
	switch s := s.(type) {
	case nil:
		return nil
	case *ast.EmptyStmt:
		return nil
	case *ast.BlockStmt:
		return c.block(s.List)
	case *ast.ExprStmt:
		return c.expr(s.X)
	case *ast.DeclStmt:
		var out []QNode
		if gd, ok := s.Decl.(*ast.GenDecl); ok {
			for _, sp := range gd.Specs {
				if vs, ok := sp.(*ast.ValueSpec); ok {
					for _, v := range vs.Values {
						out = append(out, c.expr(v)...)
					}
				}
			}
		}
		return out
	case *ast.IncDecStmt:
		return c.expr(s.X)
	case *ast.SendStmt:
		out := c.expr(s.Value)
		out = append(out, c.expr(s.Chan)...)
		if selName(s.Chan) == "lines" {
			return append(out, c.ev(s, "SendLine"))
		}
		return append(out, c.unknown(s, "send on an unrecognised channel"))
	case *ast.AssignStmt:
		var out []QNode
		for _, r := range s.Rhs {
			if call, ok := r.(*ast.CallExpr); ok {
				if id, ok := call.Fun.(*ast.Ident); ok && id.Name == "make" && len(call.Args) >= 1 {
					if _, isChan := call.Args[0].(*ast.ChanType); isChan {
						if len(call.Args) > 1 {
							out = append(out, c.unknown(s, "buffered channel"))
						} else {
							out = append(out, c.ev(s, "MakeChans"))
						}
						continue
					}
				}
			}
			out = append(out, c.expr(r)...)
		}
		for _, l := range s.Lhs {
			if ix, ok := l.(*ast.IndexExpr); ok && selName(ix.X) == "handles" {
				out = append(out, c.expr(ix.Index)...)
				out = append(out, c.ev(s, "InstallHandle"))
				continue
			}
			if _, isId := l.(*ast.Ident); !isId {
				out = append(out, c.expr(l)...)
			}
		}
		return out
	case *ast.DeferStmt:
		if ns, ok := c.call(s.Call); ok && len(ns) == 1 && ns[0].K == "Ev" {
			c.defers = append(c.defers, ns[0])
			return nil
		}
		if ns := c.expr(s.Call); len(ns) == 0 {
			return nil // a deferred call without any event of ours (ticker.Stop, ...)
		}
		return []QNode{c.unknown(s, "defer outside the vocabulary")}
	case *ast.GoStmt:
		if _, isLit := s.Call.Fun.(*ast.FuncLit); isLit {
			var out []QNode
			for _, a := range s.Call.Args {
				out = append(out, c.expr(a)...)
			}
			return append(out, c.ev(s, "Spawn"))
		}
		return []QNode{c.unknown(s, "go statement outside the vocabulary")}
	case *ast.ReturnStmt:
		var out []QNode
		for _, r := range s.Results {
			out = append(out, c.expr(r)...)
		}
		out = append(out, c.runDefers()...)
		return append(out, QNode{K: "Return"})
	case *ast.IfStmt:
		out := c.stmt(s.Init)
		out = append(out, c.expr(s.Cond)...)
		n := QNode{K: "If", Then: c.block(s.Body.List)}
		if s.Else != nil {
			n.Else = c.stmt(s.Else)
		}
		if len(n.Then) == 0 && len(n.Else) == 0 {
			return out
		}
		return append(out, n)
	case *ast.RangeStmt:
		out := c.expr(s.X)
		if id, ok := s.X.(*ast.Ident); ok && id.Name == "lines" && c.lineRecv != "" {
			body := append([]QNode{c.ev(s, c.lineRecv)}, c.block(s.Body.List)...)
			for _, n := range body {
				if containsReturn(n) {
					return []QNode{c.unknown(s, "return inside the line loop")}
				}
			}
			out = append(out, QNode{K: "Loop", Body: body, Site: c.site(s, "loop"), Pos: c.p.at(s)})
			return append(out, c.ev(s, c.lineEnd))
		}
		body := c.block(s.Body.List)
		if len(body) == 0 {
			return out
		}
		return append(out, QNode{K: "Loop", Body: body, Site: c.site(s, "loop"), Pos: c.p.at(s)})
	case *ast.ForStmt:
		out := c.stmt(s.Init)
		body := append(c.expr(s.Cond), c.block(s.Body.List)...)
		body = append(body, c.stmt(s.Post)...)
		if len(body) == 0 {
			return out
		}
		out = append(out, QNode{K: "Loop", Body: body, Site: c.site(s, "loop"), Pos: c.p.at(s)})
		return append(out, c.expr(s.Cond)...)
	case *ast.BranchStmt:
		return []QNode{c.unknown(s, "break/continue/goto")}
	case *ast.SwitchStmt, *ast.TypeSwitchStmt, *ast.SelectStmt, *ast.LabeledStmt:
		// acceptable only if nothing of ours happens inside
		sub := &qctx{p: c.p, vmPkg: c.vmPkg, fn: c.fn, nsite: new(int), sites: new([]string), lineRecv: c.lineRecv, lineEnd: c.lineEnd}
		interesting := false
		ast.Inspect(s, func(n ast.Node) bool {
			switch x := n.(type) {
			case *ast.ReturnStmt, *ast.GoStmt, *ast.DeferStmt, *ast.SendStmt:
				interesting = true
			case *ast.UnaryExpr:
				if x.Op == token.ARROW {
					interesting = true
				}
			case *ast.CallExpr:
				if ns, ok := sub.call(x); ok && len(ns) > 0 {
					interesting = true
				}
			case *ast.SelectorExpr:
				if x.Sel.Name == "handles" {
					interesting = true
				}
			}
			return !interesting
		})
		if interesting {
			return []QNode{c.unknown(s, "switch/select/label containing runtime events")}
		}
		return nil
	}
	return []QNode{c.unknown(s, "statement")}
}

// SeqEntry is one extracted function.
type SeqEntry struct {
	Name  string   `json:"name"`
	IR    []QNode  `json:"ir"`
	Sites []string `json:"sites"`
}

func seqOf(p, vmPkg *Pkg, name string, body *ast.BlockStmt, recv, end string, inlineRun bool) SeqEntry {
	n := 0
	sites := []string{"-"}
	c := &qctx{p: p, vmPkg: vmPkg, fn: name, nsite: &n, sites: &sites, lineRecv: recv, lineEnd: end, inlineRun: inlineRun}
	ir := c.block(body.List)
	ir = append(ir, c.runDefers()...)
	return SeqEntry{Name: name, IR: ir, Sites: sites}
}

func goLits(body *ast.BlockStmt) []*ast.FuncLit {
	var lits []*ast.FuncLit
	ast.Inspect(body, func(n ast.Node) bool {
		if g, ok := n.(*ast.GoStmt); ok {
			if l, ok := g.Call.Fun.(*ast.FuncLit); ok {
				lits = append(lits, l)
			}
		}
		return true
	})
	return lits
}

// RuntimeSeq extracts the five entries: loop, reload, unload, startvm, vmgo.
// A missing function yields a single QUnknown.
func RuntimeSeq(rt, vmPkg *Pkg) map[string]SeqEntry {
	out := map[string]SeqEntry{}
	missing := func(key, what string) {
		out[key] = SeqEntry{Name: what, IR: []QNode{{K: "Unknown", Site: 1, Why: what + " not found"}}, Sites: []string{"-", what + " not found"}}
	}
	if d := rt.Funcs["Runtime.CompileAndRun"]; d != nil && d.Body != nil {
		out["reload"] = seqOf(rt, vmPkg, "Runtime.CompileAndRun", d.Body, "", "", false)
	} else {
		missing("reload", "Runtime.CompileAndRun")
	}
	if d := rt.Funcs["Runtime.UnloadProgram"]; d != nil && d.Body != nil {
		out["unload"] = seqOf(rt, vmPkg, "Runtime.UnloadProgram", d.Body, "", "", false)
	} else {
		missing("unload", "Runtime.UnloadProgram")
	}
	if d := rt.Funcs["Runtime.startVM"]; d != nil && d.Body != nil {
		out["startvm"] = seqOf(rt, vmPkg, "Runtime.startVM", d.Body, "", "", false)
		lits := goLits(d.Body)
		if len(lits) == 1 {
			out["vmgo"] = seqOf(rt, vmPkg, "Runtime.startVM.go", lits[0].Body, "VmRecv", "VmClosed", true)
		} else {
			missing("vmgo", "the goroutine of Runtime.startVM")
		}
	} else {
		missing("startvm", "Runtime.startVM")
		missing("vmgo", "the goroutine of Runtime.startVM")
	}
	found := false
	if d := rt.Funcs["New"]; d != nil && d.Body != nil {
		for _, l := range goLits(d.Body) {
			isLoop := false
			ast.Inspect(l.Body, func(n ast.Node) bool {
				if r, ok := n.(*ast.RangeStmt); ok {
					if id, ok := r.X.(*ast.Ident); ok && id.Name == "lines" {
						isLoop = true
					}
				}
				return !isLoop
			})
			if isLoop && !found {
				found = true
				out["loop"] = seqOf(rt, vmPkg, "New.lineloop", l.Body, "TakeLine", "InputClosed", false)
			}
		}
	}
	if !found {
		missing("loop", "the line loop of runtime.New")
	}
	return out
}
