//go:build verif

// emitir.go: the C09 protocol IR (coq/Metrics/EmitProto.v) of
// Metric.EmitLabelSets, re-extracted from the CURRENT source with go/parser +
// go/ast only.  The function is read as a producer on its channel parameter:
// a loop over the receiver's LabelValues, sends (unconditional, or competing
// with a timer / default arm of a select), close / deferred close, early
// exits.  Everything outside that vocabulary becomes Unknown, which the
// verified checker rejects.  The translator is part of the trusted base; its
// output for fixed snippets is tested by SelfTestEmit.
package xlate

import (
	"fmt"
	"go/ast"
	"go/token"
	"strconv"
	"strings"
)

// ENode is one statement of the emitter IR.
//
//	top level: Plain Range Close DeferClose Return Unknown
//	loop body: Plain Send SendWithin Continue Break Return Unknown
type ENode struct {
	K    string  `json:"k"`
	D    uint64  `json:"d,omitempty"`   // SendWithin: milliseconds the send may wait
	Alt  string  `json:"alt,omitempty"` // SendWithin: Next Continue Break Return
	Body []ENode `json:"body,omitempty"`
	Why  string  `json:"why,omitempty"`
}

// EmitCoq renders a top-level statement list as a `list tstm` term.
func EmitCoq(ns []ENode) string {
	xs := make([]string, len(ns))
	for i, n := range ns {
		switch n.K {
		case "Plain", "Close", "DeferClose", "Return":
			xs[i] = "T" + n.K
		case "Range":
			ys := make([]string, len(n.Body))
			for j, b := range n.Body {
				switch b.K {
				case "Plain", "Send", "Continue", "Break", "Return":
					ys[j] = "B" + b.K
				case "SendWithin":
					ys[j] = "BSendWithin " + strconv.FormatUint(b.D, 10) + " Alt" + b.Alt
				default:
					ys[j] = "BUnknown"
				}
			}
			xs[i] = "TRange [" + strings.Join(ys, "; ") + "]"
		default:
			xs[i] = "TUnknown"
		}
	}
	return "[" + strings.Join(xs, "; ") + "]"
}

// EmitKinds is a compact rendering (self test, messages).
func EmitKinds(ns []ENode) string {
	var b strings.Builder
	for _, n := range ns {
		b.WriteString(n.K)
		if n.K == "SendWithin" {
			fmt.Fprintf(&b, "[%d,%s]", n.D, n.Alt)
		}
		if n.K == "Range" {
			b.WriteString("(" + EmitKinds(n.Body) + ")")
		}
		b.WriteString(" ")
	}
	return b.String()
}

// EmitUnknowns lists the reasons of all Unknown nodes.
func EmitUnknowns(ns []ENode) []string {
	var r []string
	for _, n := range ns {
		if n.K == "Unknown" {
			r = append(r, n.Why)
		}
		r = append(r, EmitUnknowns(n.Body)...)
	}
	return r
}

// EmitShapeOK is the harness's own reading of the accepted shapes (it is
// compared with the verified checker emit_ok on every run): one loop over the
// label values, straight-line body with exactly one unconditional send,
// exactly one close (after the loop, or deferred).
func EmitShapeOK(ns []ENode) (bool, string) {
	ranged, closed, deferred := false, false, false
	for _, n := range ns {
		switch n.K {
		case "Plain":
		case "Range":
			if ranged {
				return false, "a second loop over the label values"
			}
			if closed {
				return false, "the loop runs after the channel is closed"
			}
			sends := 0
			for _, b := range n.Body {
				switch b.K {
				case "Plain":
				case "Send":
					sends++
				case "SendWithin":
					return false, fmt.Sprintf("the send competes with another select arm (gives up after %d ms, then %s)", b.D, b.Alt)
				case "Unknown":
					return false, b.Why
				default:
					return false, "the loop body can leave early (" + b.K + ")"
				}
			}
			if sends != 1 {
				return false, fmt.Sprintf("%d unconditional sends per element, want 1", sends)
			}
			ranged = true
		case "Close":
			if !ranged || closed || deferred {
				return false, "close before the loop, or a second close"
			}
			closed = true
		case "DeferClose":
			if closed || deferred {
				return false, "a second close"
			}
			deferred = true
		case "Return":
			if ranged && closed != deferred {
				return true, ""
			}
			return false, "return before the loop and the close are done"
		default:
			return false, n.Why
		}
	}
	if !ranged {
		return false, "no loop over the label values"
	}
	if closed == deferred {
		return false, "the channel is not closed exactly once"
	}
	return true, ""
}

type ectx struct {
	p     *Pkg
	fn    *ast.FuncDecl
	ch    string // channel parameter
	recv  string // receiver name
	elem  map[string]bool // variables derived from the loop element
	chans map[string]bool
}

// EmitProtoIR translates Metric.EmitLabelSets.
func EmitProtoIR(met *Pkg) ([]ENode, error) {
	d := met.Funcs["Metric.EmitLabelSets"]
	if d == nil || d.Body == nil {
		return nil, fmt.Errorf("Metric.EmitLabelSets not found")
	}
	if d.Type.Params == nil || len(d.Type.Params.List) != 1 || len(d.Type.Params.List[0].Names) != 1 {
		return nil, fmt.Errorf("EmitLabelSets: want one channel parameter")
	}
	if _, ok := d.Type.Params.List[0].Type.(*ast.ChanType); !ok {
		return nil, fmt.Errorf("EmitLabelSets: the parameter is not a channel")
	}
	if d.Recv == nil || len(d.Recv.List) != 1 || len(d.Recv.List[0].Names) != 1 {
		return nil, fmt.Errorf("EmitLabelSets: want a named receiver")
	}
	c := &ectx{p: met, fn: d, ch: d.Type.Params.List[0].Names[0].Name, recv: d.Recv.List[0].Names[0].Name}
	c.chans = map[string]bool{c.ch: true}
	var out []ENode
	for _, s := range d.Body.List {
		out = append(out, c.top(s))
	}
	return out, nil
}

func (c *ectx) unknown(n ast.Node, why string) ENode {
	return ENode{K: "Unknown", Why: fmt.Sprintf("%s: %s: %s", c.p.at(n), why, c.p.src(n))}
}

// isCloseCh recognises close(<ch>).
func (c *ectx) isCloseCh(e ast.Expr) bool {
	call, ok := e.(*ast.CallExpr)
	if !ok || len(call.Args) != 1 {
		return false
	}
	id, ok := call.Fun.(*ast.Ident)
	if !ok || id.Name != "close" {
		return false
	}
	a, ok := call.Args[0].(*ast.Ident)
	return ok && a.Name == c.ch
}

func (c *ectx) top(s ast.Stmt) ENode {
	switch x := s.(type) {
	case *ast.EmptyStmt:
		return ENode{K: "Plain"}
	case *ast.RangeStmt:
		if sel, ok := x.X.(*ast.SelectorExpr); ok && sel.Sel.Name == "LabelValues" {
			if id, ok := sel.X.(*ast.Ident); ok && id.Name == c.recv {
				if x.Tok != token.DEFINE {
					return c.unknown(s, "loop over the label values that does not define its own variables")
				}
				c.elem = map[string]bool{}
				if v, ok := x.Value.(*ast.Ident); ok && v.Name != "_" {
					c.elem[v.Name] = true
				}
				if len(c.elem) == 0 {
					return c.unknown(s, "loop over the label values without an element variable")
				}
				n := ENode{K: "Range"}
				for _, b := range x.Body.List {
					n.Body = append(n.Body, c.body(b))
				}
				return n
			}
		}
	case *ast.ExprStmt:
		if c.isCloseCh(x.X) {
			return ENode{K: "Close"}
		}
	case *ast.DeferStmt:
		if c.isCloseCh(x.Call) {
			return ENode{K: "DeferClose"}
		}
		// a deferred plain call (t.Stop()) has no effect on the protocol
		if _, lit := x.Call.Fun.(*ast.FuncLit); !lit {
			if why := c.notPlain(x.Call); why == "" {
				return ENode{K: "Plain"}
			}
		}
		return c.unknown(s, "defer outside the vocabulary")
	case *ast.ReturnStmt:
		if len(x.Results) == 0 {
			return ENode{K: "Return"}
		}
	}
	if why := c.notPlain(s); why != "" {
		return c.unknown(s, why)
	}
	return ENode{K: "Plain"}
}

// mentionsElem: does the expression use a variable derived from the loop element?
func (c *ectx) mentionsElem(e ast.Node) bool {
	found := false
	ast.Inspect(e, func(n ast.Node) bool {
		if sel, ok := n.(*ast.SelectorExpr); ok {
			if c.mentionsElem(sel.X) {
				found = true
			}
			return false
		}
		if id, ok := n.(*ast.Ident); ok && c.elem[id.Name] {
			found = true
		}
		return !found
	})
	return found
}

func (c *ectx) sendOnCh(s ast.Stmt) (*ast.SendStmt, bool) {
	send, ok := s.(*ast.SendStmt)
	if !ok {
		return nil, false
	}
	id, ok := send.Chan.(*ast.Ident)
	return send, ok && id.Name == c.ch
}

// sendValueOK: the value sent is built from the current element and
// evaluating it has no effect of its own.
func (c *ectx) sendValueOK(send *ast.SendStmt) string {
	if why := c.notPlain(send.Value); why != "" {
		return why
	}
	if !c.mentionsElem(send.Value) {
		return "the value sent is not built from the loop element"
	}
	return ""
}

func (c *ectx) body(s ast.Stmt) ENode {
	switch x := s.(type) {
	case *ast.EmptyStmt:
		return ENode{K: "Plain"}
	case *ast.SendStmt:
		if send, ok := c.sendOnCh(x); ok {
			if why := c.sendValueOK(send); why != "" {
				return c.unknown(s, why)
			}
			return ENode{K: "Send"}
		}
	case *ast.AssignStmt:
		// x := f(lv): x is derived from the element
		if c.notPlain(s) == "" {
			uses := false
			for _, r := range x.Rhs {
				if c.mentionsElem(r) {
					uses = true
				}
			}
			for _, l := range x.Lhs {
				if id, ok := l.(*ast.Ident); ok && id.Name != "_" {
					if uses {
						c.elem[id.Name] = true
					} else if x.Tok == token.ASSIGN || x.Tok == token.DEFINE {
						delete(c.elem, id.Name)
					}
				}
			}
			return ENode{K: "Plain"}
		}
	case *ast.DeclStmt:
		if c.notPlain(s) == "" {
			return ENode{K: "Plain"}
		}
	case *ast.SelectStmt:
		return c.selectStmt(x)
	case *ast.BranchStmt:
		if x.Label == nil {
			switch x.Tok {
			case token.CONTINUE:
				return ENode{K: "Continue"}
			case token.BREAK:
				return ENode{K: "Break"}
			}
		}
		return c.unknown(s, "branch outside the vocabulary")
	case *ast.ReturnStmt:
		if len(x.Results) == 0 {
			return ENode{K: "Return"}
		}
	}
	if why := c.notPlain(s); why != "" {
		return c.unknown(s, why)
	}
	return ENode{K: "Plain"}
}

// selectStmt: a select one of whose arms sends on the channel becomes
// SendWithin; a select that does not touch the channel and cannot block
// (default arm) is Plain (notPlain decides).
func (c *ectx) selectStmt(x *ast.SelectStmt) ENode {
	var sendArm, otherArm *ast.CommClause
	n := 0
	for _, cl := range x.Body.List {
		cc := cl.(*ast.CommClause)
		if cc.Comm != nil {
			if _, ok := c.sendOnCh(cc.Comm); ok {
				if sendArm != nil {
					return c.unknown(x, "two arms send on the channel")
				}
				sendArm = cc
				continue
			}
		}
		otherArm = cc
		n++
	}
	if sendArm == nil {
		if why := c.notPlain(x); why != "" {
			return c.unknown(x, why)
		}
		return ENode{K: "Plain"}
	}
	send, _ := c.sendOnCh(sendArm.Comm)
	if why := c.sendValueOK(send); why != "" {
		return c.unknown(x, why)
	}
	for _, b := range armBody(sendArm.Body) {
		if why := c.notPlain(b); why != "" {
			return c.unknown(b, "after the send in its select arm: "+why)
		}
	}
	if n == 0 {
		return ENode{K: "Send"} // select with the send as its only arm
	}
	if n != 1 {
		return c.unknown(x, "select with more than one arm besides the send")
	}
	var d uint64
	if otherArm.Comm != nil {
		ms, why := c.armDelay(otherArm.Comm)
		if why != "" {
			return c.unknown(otherArm, why)
		}
		d = ms
	}
	alt := "Next"
	stmts := armBody(otherArm.Body) // a trailing break only ends the select
	for i, b := range stmts {
		last := i == len(stmts)-1
		if last {
			switch y := b.(type) {
			case *ast.ReturnStmt:
				if len(y.Results) == 0 {
					alt = "Return"
					continue
				}
			case *ast.BranchStmt:
				if y.Label == nil && y.Tok == token.CONTINUE {
					alt = "Continue"
					continue
				}
			}
		}
		if why := c.notPlain(b); why != "" {
			return c.unknown(b, "in the arm that competes with the send: "+why)
		}
	}
	if len(otherArm.Body) != len(stmts) && alt != "Next" {
		return c.unknown(otherArm, "statement after the exit of the arm")
	}
	return ENode{K: "SendWithin", D: d, Alt: alt}
}

// armDelay: after how many milliseconds does `case <-X:` become ready?
// Recognised: time.After(D), time.Tick(D), T.C where T is assigned once from
// time.NewTimer(D) / time.NewTicker(D) and every T.Reset has the same D.
func (c *ectx) armDelay(comm ast.Stmt) (uint64, string) {
	var rx ast.Expr
	switch y := comm.(type) {
	case *ast.ExprStmt:
		rx = y.X
	case *ast.AssignStmt:
		if len(y.Rhs) == 1 {
			rx = y.Rhs[0]
		}
	}
	u, ok := rx.(*ast.UnaryExpr)
	if !ok || u.Op != token.ARROW {
		return 0, "select arm that is not a receive"
	}
	if call, ok := u.X.(*ast.CallExpr); ok {
		if name := qualName(call.Fun); (name == "time.After" || name == "time.Tick") && len(call.Args) == 1 {
			return c.durMs(call.Args[0])
		}
		return 0, "receive from a channel the model has no clock for"
	}
	sel, ok := u.X.(*ast.SelectorExpr)
	if !ok || sel.Sel.Name != "C" {
		return 0, "receive from a channel the model has no clock for"
	}
	t, ok := sel.X.(*ast.Ident)
	if !ok {
		return 0, "receive from a channel the model has no clock for"
	}
	var durs []ast.Expr
	bad := ""
	ast.Inspect(c.fn.Body, func(n ast.Node) bool {
		switch y := n.(type) {
		case *ast.AssignStmt:
			for i, l := range y.Lhs {
				if id, ok := l.(*ast.Ident); ok && id.Name == t.Name && i < len(y.Rhs) {
					call, ok := y.Rhs[i].(*ast.CallExpr)
					if name := ""; ok {
						name = qualName(call.Fun)
						if (name == "time.NewTimer" || name == "time.NewTicker") && len(call.Args) == 1 {
							durs = append(durs, call.Args[0])
							continue
						}
					}
					bad = "timer " + t.Name + " assigned from something else than time.NewTimer"
				}
			}
		case *ast.CallExpr:
			if s, ok := y.Fun.(*ast.SelectorExpr); ok && s.Sel.Name == "Reset" {
				if id, ok := s.X.(*ast.Ident); ok && id.Name == t.Name && len(y.Args) == 1 {
					durs = append(durs, y.Args[0])
				}
			}
		}
		return true
	})
	if bad != "" {
		return 0, bad
	}
	if len(durs) == 0 {
		return 0, "timer " + t.Name + " is not made in this function"
	}
	first, why := c.durMs(durs[0])
	if why != "" {
		return 0, why
	}
	for _, e := range durs[1:] {
		ms, why := c.durMs(e)
		if why != "" {
			return 0, why
		}
		if ms != first {
			return 0, "timer " + t.Name + " is armed with different durations"
		}
	}
	return first, ""
}

func qualName(e ast.Expr) string {
	if s, ok := e.(*ast.SelectorExpr); ok {
		if id, ok := s.X.(*ast.Ident); ok {
			return id.Name + "." + s.Sel.Name
		}
	}
	return ""
}

var timeUnitsNs = map[string]uint64{"time.Nanosecond": 1, "time.Microsecond": 1e3, "time.Millisecond": 1e6,
	"time.Second": 1e9, "time.Minute": 60e9, "time.Hour": 3600e9}

func (c *ectx) durMs(e ast.Expr) (uint64, string) {
	ns, why := c.durNs(e, 0)
	if why != "" {
		return 0, why
	}
	return ns / 1e6, ""
}

// durNs evaluates a constant duration expression (integer literals, time
// units, * and +, package-level constants, time.Duration(x)).
func (c *ectx) durNs(e ast.Expr, depth int) (uint64, string) {
	if depth > 8 {
		return 0, "duration expression too deep"
	}
	switch y := e.(type) {
	case *ast.ParenExpr:
		return c.durNs(y.X, depth+1)
	case *ast.BasicLit:
		if y.Kind == token.INT {
			v, err := strconv.ParseUint(strings.ReplaceAll(y.Value, "_", ""), 0, 64)
			if err == nil {
				return v, ""
			}
		}
	case *ast.SelectorExpr:
		if v, ok := timeUnitsNs[qualName(y)]; ok {
			return v, ""
		}
	case *ast.BinaryExpr:
		a, w := c.durNs(y.X, depth+1)
		if w != "" {
			return 0, w
		}
		b, w := c.durNs(y.Y, depth+1)
		if w != "" {
			return 0, w
		}
		switch y.Op {
		case token.MUL:
			return a * b, ""
		case token.ADD:
			return a + b, ""
		}
	case *ast.CallExpr:
		if qualName(y.Fun) == "time.Duration" && len(y.Args) == 1 {
			return c.durNs(y.Args[0], depth+1)
		}
	case *ast.Ident:
		for _, f := range c.p.Files {
			for _, d := range f.Decls {
				g, ok := d.(*ast.GenDecl)
				if !ok || g.Tok != token.CONST {
					continue
				}
				for _, sp := range g.Specs {
					vs := sp.(*ast.ValueSpec)
					for i, n := range vs.Names {
						if n.Name == y.Name && i < len(vs.Values) {
							return c.durNs(vs.Values[i], depth+1)
						}
					}
				}
			}
		}
	}
	return 0, "duration that is not a constant the translator can evaluate: " + c.p.src(e)
}

// notPlain returns "" if the node has no effect on the protocol: it does not
// touch the channel, cannot block, does not leave the statement, starts no
// goroutine, defers nothing and does not end the goroutine or the process.
func (c *ectx) notPlain(n ast.Node) string {
	why := ""
	var walk func(n ast.Node, loops, breakables int)
	walkAll := func(ns []ast.Stmt, loops, breakables int) {
		for _, s := range ns {
			walk(s, loops, breakables)
		}
	}
	walk = func(n ast.Node, loops, breakables int) {
		if n == nil || why != "" {
			return
		}
		switch x := n.(type) {
		case *ast.FuncLit:
			why = "function literal"
			return
		case *ast.GoStmt:
			why = "go statement"
			return
		case *ast.DeferStmt:
			why = "defer"
			return
		case *ast.ReturnStmt:
			why = "return inside a nested statement"
			return
		case *ast.LabeledStmt:
			why = "label"
			return
		case *ast.SelectStmt:
			hasDefault := false
			for _, cl := range x.Body.List {
				if cl.(*ast.CommClause).Comm == nil {
					hasDefault = true
				}
			}
			if !hasDefault {
				why = "select that can block"
				return
			}
			for _, cl := range x.Body.List {
				cc := cl.(*ast.CommClause)
				// the communication itself does not block here; its operands are walked
				switch y := cc.Comm.(type) {
				case *ast.SendStmt:
					walk(y.Chan, loops, breakables)
					walk(y.Value, loops, breakables)
				case *ast.ExprStmt:
					if u, ok := y.X.(*ast.UnaryExpr); ok && u.Op == token.ARROW {
						walk(u.X, loops, breakables)
					}
				case *ast.AssignStmt:
					for _, r := range y.Rhs {
						if u, ok := r.(*ast.UnaryExpr); ok && u.Op == token.ARROW {
							walk(u.X, loops, breakables)
						}
					}
				}
				walkAll(cc.Body, loops, breakables+1)
			}
			return
		case *ast.SendStmt:
			why = "channel send that can block"
			return
		case *ast.UnaryExpr:
			if x.Op == token.ARROW {
				why = "channel receive that can block"
				return
			}
		case *ast.BranchStmt:
			switch {
			case x.Label != nil || x.Tok == token.GOTO:
				why = "labeled branch or goto"
			case x.Tok == token.CONTINUE && loops == 0:
				why = "continue escaping the statement"
			case x.Tok == token.BREAK && breakables == 0:
				why = "break escaping the statement"
			}
			return
		case *ast.Ident:
			if c.chans[x.Name] {
				why = "use of the channel " + x.Name
			}
			return
		case *ast.CallExpr:
			if id, ok := x.Fun.(*ast.Ident); ok && (id.Name == "panic" || id.Name == "close" || id.Name == "recover") {
				why = "call of " + id.Name
				return
			}
			if sel, ok := x.Fun.(*ast.SelectorExpr); ok {
				if lockNames[sel.Sel.Name] {
					why = "lock operation " + sel.Sel.Name
					return
				}
				if fatalNames[sel.Sel.Name] {
					why = "call that ends the goroutine or process: " + sel.Sel.Name
					return
				}
			}
		case *ast.ForStmt:
			if x.Cond == nil {
				why = "loop without a condition"
				return
			}
			walk(x.Init, loops, breakables)
			walk(x.Cond, loops, breakables)
			walk(x.Post, loops, breakables)
			walk(x.Body, loops+1, breakables+1)
			return
		case *ast.RangeStmt:
			walk(x.Key, loops, breakables)
			walk(x.Value, loops, breakables)
			walk(x.X, loops, breakables)
			walk(x.Body, loops+1, breakables+1)
			return
		case *ast.SwitchStmt:
			walk(x.Init, loops, breakables)
			walk(x.Tag, loops, breakables)
			walk(x.Body, loops, breakables+1)
			return
		case *ast.TypeSwitchStmt:
			walk(x.Init, loops, breakables)
			walk(x.Assign, loops, breakables)
			walk(x.Body, loops, breakables+1)
			return
		case *ast.SelectorExpr:
			walk(x.X, loops, breakables)
			return
		case *ast.KeyValueExpr:
			walk(x.Value, loops, breakables)
			if _, isId := x.Key.(*ast.Ident); !isId {
				walk(x.Key, loops, breakables)
			}
			return
		}
		first := true
		ast.Inspect(n, func(ch ast.Node) bool {
			if ch == nil || why != "" {
				return false
			}
			if first {
				first = false
				return true
			}
			walk(ch, loops, breakables)
			return false
		})
	}
	switch v := n.(type) {
	case ast.Expr:
		if v == nil {
			return ""
		}
	case ast.Stmt:
		if v == nil {
			return ""
		}
	}
	walk(n, 0, 0)
	return why
}
