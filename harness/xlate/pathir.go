//go:build verif

// Package xlate re-extracts small control IRs from the CURRENT Go source of
// mtail with go/parser + go/ast only (no type checker).  pathir.go produces
// the C12 path IR (coq/Export/PathIR.v) of one export closure - the function
// literal passed to Store.Range - and of the label-set emitter.  Every
// construct outside the recognised vocabulary becomes an Unknown node, which
// the verified checker rejects.  The translator is part of the trusted base;
// its output for fixed snippets is tested by SelfTestPath.
package xlate

import (
	"fmt"
	"go/ast"
	"go/parser"
	"go/printer"
	"go/token"
	"os"
	"path/filepath"
	"sort"
	"strings"
)

// PNode is one statement of the path IR.
type PNode struct {
	K    string  `json:"k"` // RLock RUnlock DeferRUnlock Spawn Range Drain If Continue Break Return Other Unknown
	Then []PNode `json:"then,omitempty"`
	Else []PNode `json:"else,omitempty"`
	Body []PNode `json:"body,omitempty"`
	Why  string  `json:"why,omitempty"` // for Unknown: what was not recognised, and where
}

// Coq renders a statement list as a `list stmt` term.
func PathCoq(ns []PNode) string {
	xs := make([]string, len(ns))
	for i, n := range ns {
		xs[i] = n.coq()
	}
	return "[" + strings.Join(xs, "; ") + "]"
}

func (n PNode) coq() string {
	switch n.K {
	case "Range":
		return "SRange (block_of " + PathCoq(n.Body) + ")"
	case "If":
		return "SIf (block_of " + PathCoq(n.Then) + ") (block_of " + PathCoq(n.Else) + ")"
	case "RLock", "RUnlock", "DeferRUnlock", "Spawn", "Drain", "Continue", "Break", "Return", "Other":
		return "S" + n.K
	}
	return "SUnknown"
}

// Unknowns lists the reasons of all Unknown nodes.
func Unknowns(ns []PNode) []string {
	var r []string
	for _, n := range ns {
		if n.K == "Unknown" {
			r = append(r, n.Why)
		}
		r = append(r, Unknowns(n.Then)...)
		r = append(r, Unknowns(n.Else)...)
		r = append(r, Unknowns(n.Body)...)
	}
	return r
}

// Pkg is a parsed package directory (non-test files).
type Pkg struct {
	Fset  *token.FileSet
	Files []*ast.File
	Funcs map[string]*ast.FuncDecl // "Recv.Name" or "Name"
	Types map[string]ast.Expr      // named types
}

func LoadPkg(dir string) (*Pkg, error) {
	p := &Pkg{Fset: token.NewFileSet(), Funcs: map[string]*ast.FuncDecl{}, Types: map[string]ast.Expr{}}
	ents, err := os.ReadDir(dir)
	if err != nil {
		return nil, err
	}
	for _, e := range ents {
		n := e.Name()
		if e.IsDir() || !strings.HasSuffix(n, ".go") || strings.HasSuffix(n, "_test.go") || strings.HasPrefix(n, "zz_verif_") {
			continue
		}
		f, err := parser.ParseFile(p.Fset, filepath.Join(dir, n), nil, parser.SkipObjectResolution)
		if err != nil {
			return nil, err
		}
		p.addFile(f)
	}
	return p, nil
}

// LoadSrc parses one source text as a package (for the self test).
func LoadSrc(src string) (*Pkg, error) {
	p := &Pkg{Fset: token.NewFileSet(), Funcs: map[string]*ast.FuncDecl{}, Types: map[string]ast.Expr{}}
	f, err := parser.ParseFile(p.Fset, "snippet.go", src, parser.SkipObjectResolution)
	if err != nil {
		return nil, err
	}
	p.addFile(f)
	return p, nil
}

func (p *Pkg) addFile(f *ast.File) {
	p.Files = append(p.Files, f)
	for _, d := range f.Decls {
		switch d := d.(type) {
		case *ast.FuncDecl:
			p.Funcs[funcKey(d)] = d
		case *ast.GenDecl:
			for _, s := range d.Specs {
				if ts, ok := s.(*ast.TypeSpec); ok {
					p.Types[ts.Name.Name] = ts.Type
				}
			}
		}
	}
}

func funcKey(d *ast.FuncDecl) string {
	if d.Recv != nil && len(d.Recv.List) == 1 {
		return typeName(d.Recv.List[0].Type) + "." + d.Name.Name
	}
	return d.Name.Name
}

func typeName(e ast.Expr) string {
	switch t := e.(type) {
	case *ast.StarExpr:
		return typeName(t.X)
	case *ast.Ident:
		return t.Name
	case *ast.SelectorExpr:
		return t.Sel.Name
	}
	return "?"
}

func (p *Pkg) src(n ast.Node) string {
	var b strings.Builder
	_ = printer.Fprint(&b, p.Fset, n)
	s := strings.Join(strings.Fields(b.String()), " ")
	if len(s) > 70 {
		s = s[:70] + "..."
	}
	return s
}

func (p *Pkg) at(n ast.Node) string {
	pos := p.Fset.Position(n.Pos())
	return fmt.Sprintf("%s:%d", filepath.Base(pos.Filename), pos.Line)
}

// ---- finding the closure ----

// RangeClosure returns the function literal passed to `<recv>.store.Range(...)`
// inside function fn (e.g. "Exporter.Collect") and the name of its metric
// parameter.  Exactly one such call must exist.
func (p *Pkg) RangeClosure(fn string) (*ast.FuncLit, string, error) {
	d := p.Funcs[fn]
	if d == nil || d.Body == nil {
		return nil, "", fmt.Errorf("function %s not found", fn)
	}
	var lits []*ast.FuncLit
	ast.Inspect(d.Body, func(n ast.Node) bool {
		c, ok := n.(*ast.CallExpr)
		if !ok {
			return true
		}
		sel, ok := c.Fun.(*ast.SelectorExpr)
		if !ok || sel.Sel.Name != "Range" || len(c.Args) != 1 {
			return true
		}
		if inner, ok := sel.X.(*ast.SelectorExpr); !ok || inner.Sel.Name != "store" {
			return true
		}
		if l, ok := c.Args[0].(*ast.FuncLit); ok {
			lits = append(lits, l)
			return false
		}
		return true
	})
	if len(lits) != 1 {
		return nil, "", fmt.Errorf("%s: %d store.Range(func...) calls, want 1", fn, len(lits))
	}
	l := lits[0]
	if l.Type.Params == nil || len(l.Type.Params.List) != 1 || len(l.Type.Params.List[0].Names) != 1 ||
		typeName(l.Type.Params.List[0].Type) != "Metric" {
		return nil, "", fmt.Errorf("%s: closure does not take one *metrics.Metric", fn)
	}
	return l, l.Type.Params.List[0].Names[0].Name, nil
}

// ---- translation ----

var lockNames = map[string]bool{"Lock": true, "Unlock": true, "RLock": true, "RUnlock": true,
	"TryLock": true, "TryRLock": true, "RLocker": true}

type pctx struct {
	exp     *Pkg              // package of the closure (exporter)
	met     *Pkg              // package metrics (methods of Metric)
	m       string            // metric parameter
	chans   map[string]bool   // unbuffered label-set channels made in the closure
	funcVar map[string]string // parameters of the enclosing function with a named func type: name -> type name
	plainFn map[string]int    // memo for callee checks: 1 plain, 2 not plain, 3 in progress
}

// PathOfClosure translates the body of the closure of function fn.
func PathOfClosure(exp, met *Pkg, fn string) ([]PNode, error) {
	lit, m, err := exp.RangeClosure(fn)
	if err != nil {
		return nil, err
	}
	c := &pctx{exp: exp, met: met, m: m, chans: map[string]bool{}, funcVar: map[string]string{}, plainFn: map[string]int{}}
	if d := exp.Funcs[fn]; d != nil && d.Type.Params != nil {
		for _, f := range d.Type.Params.List {
			if id, ok := f.Type.(*ast.Ident); ok {
				if _, isFunc := exp.Types[id.Name].(*ast.FuncType); isFunc {
					for _, n := range f.Names {
						c.funcVar[n.Name] = id.Name
					}
				}
			}
		}
	}
	return c.block(lit.Body.List, "func"), nil
}

func unknown(p *Pkg, n ast.Node, why string) PNode {
	return PNode{K: "Unknown", Why: fmt.Sprintf("%s: %s: %s", p.at(n), why, p.src(n))}
}

// brk says what an unlabeled `break` refers to here: "func" (none), "range"
// (our label-set loop) or "switch" (a switch/select arm).
func (c *pctx) block(ss []ast.Stmt, brk string) []PNode {
	var out []PNode
	for _, s := range ss {
		out = append(out, c.stmt(s, brk)...)
	}
	return out
}

func (c *pctx) isM(e ast.Expr) bool {
	id, ok := e.(*ast.Ident)
	return ok && id.Name == c.m
}

// lockCall recognises `m.<name>()`.
func (c *pctx) lockCall(e ast.Expr) string {
	call, ok := e.(*ast.CallExpr)
	if !ok || len(call.Args) != 0 {
		return ""
	}
	sel, ok := call.Fun.(*ast.SelectorExpr)
	if !ok || !c.isM(sel.X) {
		return ""
	}
	if lockNames[sel.Sel.Name] {
		return sel.Sel.Name
	}
	return ""
}

func (c *pctx) stmt(s ast.Stmt, brk string) []PNode {
	p := c.exp
	one := func(k string) []PNode { return []PNode{{K: k}} }
	switch s := s.(type) {
	case *ast.EmptyStmt:
		return nil
	case *ast.BlockStmt:
		return c.block(s.List, brk)
	case *ast.ExprStmt:
		switch c.lockCall(s.X) {
		case "RLock":
			return one("RLock")
		case "RUnlock":
			return one("RUnlock")
		case "":
		default:
			return []PNode{unknown(p, s, "lock operation outside the vocabulary")}
		}
	case *ast.DeferStmt:
		if c.lockCall(s.Call) == "RUnlock" {
			return one("DeferRUnlock")
		}
		return []PNode{unknown(p, s, "defer outside the vocabulary")}
	case *ast.AssignStmt:
		// ch := make(chan *metrics.LabelSet)   (unbuffered)
		if len(s.Lhs) == 1 && len(s.Rhs) == 1 && s.Tok == token.DEFINE {
			if id, ok := s.Lhs[0].(*ast.Ident); ok {
				if call, ok := s.Rhs[0].(*ast.CallExpr); ok {
					if f, ok := call.Fun.(*ast.Ident); ok && f.Name == "make" && len(call.Args) >= 1 {
						if _, isChan := call.Args[0].(*ast.ChanType); isChan {
							if len(call.Args) != 1 {
								return []PNode{unknown(p, s, "buffered channel")}
							}
							if c.chans[id.Name] {
								return []PNode{unknown(p, s, "channel variable made twice")}
							}
							c.chans[id.Name] = true
							return one("Other")
						}
					}
				}
			}
		}
	case *ast.GoStmt:
		// go m.EmitLabelSets(ch)
		if sel, ok := s.Call.Fun.(*ast.SelectorExpr); ok && c.isM(sel.X) && sel.Sel.Name == "EmitLabelSets" && len(s.Call.Args) == 1 {
			if id, ok := s.Call.Args[0].(*ast.Ident); ok && c.chans[id.Name] {
				return one("Spawn")
			}
		}
		return []PNode{unknown(p, s, "go statement outside the vocabulary")}
	case *ast.RangeStmt:
		if id, ok := s.X.(*ast.Ident); ok && c.chans[id.Name] {
			if s.Tok == token.ASSIGN {
				return []PNode{unknown(p, s, "range over the label-set channel assigning to outer variables")}
			}
			if len(s.Body.List) == 0 {
				return one("Drain")
			}
			return []PNode{{K: "Range", Body: c.block(s.Body.List, "range")}}
		}
	case *ast.IfStmt:
		var pre []PNode
		if s.Init != nil {
			pre = c.stmt(s.Init, brk)
		}
		if why := c.notPlain(s.Cond); why != "" {
			return append(pre, unknown(p, s.Cond, why))
		}
		n := PNode{K: "If", Then: c.block(s.Body.List, brk)}
		if s.Else != nil {
			n.Else = c.stmt(s.Else, brk)
		}
		if allOther(n.Then) && allOther(n.Else) && s.Init == nil {
			return one("Other")
		}
		return append(pre, n)
	case *ast.SwitchStmt, *ast.TypeSwitchStmt, *ast.SelectStmt:
		if why := c.notPlain(s); why == "" {
			return one("Other")
		}
		return c.arms(s)
	case *ast.ReturnStmt:
		for _, r := range s.Results {
			if why := c.notPlain(r); why != "" {
				return []PNode{unknown(p, s, why)}
			}
		}
		return one("Return")
	case *ast.BranchStmt:
		if s.Label != nil {
			return []PNode{unknown(p, s, "labeled branch")}
		}
		switch s.Tok {
		case token.CONTINUE:
			return one("Continue")
		case token.BREAK:
			if brk == "range" {
				return one("Break")
			}
			return []PNode{unknown(p, s, "break that is not the last statement of a switch/select arm")}
		}
		return []PNode{unknown(p, s, "branch outside the vocabulary")}
	}
	// everything else: must have no lock, channel, goroutine or control effect
	if why := c.notPlain(s); why != "" {
		return []PNode{unknown(p, s, why)}
	}
	return one("Other")
}

// armBody drops the trailing unlabeled `break` of a switch/select arm (it
// only ends the arm).  Any other break inside an arm becomes Unknown.
func armBody(ss []ast.Stmt) []ast.Stmt {
	if n := len(ss); n > 0 {
		if b, ok := ss[n-1].(*ast.BranchStmt); ok && b.Tok == token.BREAK && b.Label == nil {
			return ss[:n-1]
		}
	}
	return ss
}

func allOther(ns []PNode) bool {
	for _, n := range ns {
		if n.K != "Other" {
			return false
		}
	}
	return true
}

// arms turns switch / type switch / select into a chain of nondeterministic
// Ifs, one per arm, plus the empty arm when there is no default.
func (c *pctx) arms(s ast.Stmt) []PNode {
	p := c.exp
	var pre []PNode
	var clauses []ast.Stmt
	switch s := s.(type) {
	case *ast.SwitchStmt:
		if s.Init != nil {
			pre = append(pre, c.stmt(s.Init, "func")...)
		}
		if s.Tag != nil {
			if why := c.notPlain(s.Tag); why != "" {
				return []PNode{unknown(p, s.Tag, why)}
			}
		}
		clauses = s.Body.List
	case *ast.TypeSwitchStmt:
		if s.Init != nil {
			pre = append(pre, c.stmt(s.Init, "func")...)
		}
		if why := c.notPlain(s.Assign); why != "" {
			return []PNode{unknown(p, s.Assign, why)}
		}
		clauses = s.Body.List
	case *ast.SelectStmt:
		clauses = s.Body.List
	}
	hasDefault := false
	var bodies [][]PNode
	for _, cl := range clauses {
		switch cl := cl.(type) {
		case *ast.CaseClause:
			if cl.List == nil {
				hasDefault = true
			}
			for _, e := range cl.List {
				if why := c.notPlain(e); why != "" {
					return []PNode{unknown(p, e, why)}
				}
			}
			if n := len(cl.Body); n > 0 {
				if b, ok := cl.Body[n-1].(*ast.BranchStmt); ok && b.Tok == token.FALLTHROUGH {
					return []PNode{unknown(p, b, "fallthrough")}
				}
			}
			bodies = append(bodies, c.block(armBody(cl.Body), "switch"))
		case *ast.CommClause:
			if cl.Comm == nil {
				hasDefault = true
			} else if why := c.notPlain(cl.Comm); why != "" {
				return []PNode{unknown(p, cl.Comm, why)}
			}
			bodies = append(bodies, c.block(armBody(cl.Body), "switch"))
		}
	}
	if _, isSel := s.(*ast.SelectStmt); isSel && !hasDefault {
		// may wait for ever on foreign channels
		return []PNode{unknown(p, s, "select without default")}
	}
	if !hasDefault {
		bodies = append(bodies, nil)
	}
	var chain []PNode
	for i := len(bodies) - 1; i >= 0; i-- {
		if i == len(bodies)-1 {
			chain = bodies[i]
			continue
		}
		chain = []PNode{{K: "If", Then: bodies[i], Else: chain}}
	}
	return append(pre, chain...)
}

// notPlain returns "" if the node has no lock, channel-of-ours, goroutine or
// control-flow effect that escapes it; otherwise the reason.
func (c *pctx) notPlain(n ast.Node) string {
	return plainWalk(n, c.chans, func(call *ast.CallExpr) string { return c.callEffect(call) })
}

var fatalNames = map[string]bool{"panic": true, "Fatal": true, "Fatalf": true, "Fatalln": true, "Exit": true,
	"Exitf": true, "Exitln": true, "Goexit": true, "Panic": true, "Panicf": true, "Panicln": true, "FatalDepth": true}

// plainWalk is shared with the callee check.  loops counts enclosing
// for/switch statements INSIDE n (a break/continue there stays inside).
func plainWalk(n ast.Node, chans map[string]bool, callEffect func(*ast.CallExpr) string) string {
	why := ""
	var walk func(n ast.Node, loops, breakables int)
	walk = func(n ast.Node, loops, breakables int) {
		if n == nil || why != "" {
			return
		}
		switch x := n.(type) {
		case *ast.FuncLit:
			why = "function literal"
			return
		case *ast.GoStmt:
			why = "go statement"
			return
		case *ast.DeferStmt:
			why = "defer"
			return
		case *ast.ReturnStmt:
			why = "return inside a nested statement"
			return
		case *ast.LabeledStmt:
			why = "label"
			return
		case *ast.SelectStmt:
			why = "select"
			return
		case *ast.SendStmt:
			if id, ok := x.Chan.(*ast.Ident); ok && chans[id.Name] {
				why = "send on the label-set channel"
				return
			}
		case *ast.BranchStmt:
			switch {
			case x.Label != nil || x.Tok == token.GOTO:
				why = "labeled branch or goto"
			case x.Tok == token.CONTINUE && loops == 0:
				why = "continue escaping the statement"
			case x.Tok == token.BREAK && breakables == 0:
				why = "break escaping the statement"
			}
			return
		case *ast.Ident:
			if chans[x.Name] {
				why = "use of the label-set channel " + x.Name
			}
			return
		case *ast.CallExpr:
			if id, ok := x.Fun.(*ast.Ident); ok && (id.Name == "panic" || id.Name == "close" || id.Name == "recover") {
				why = "call of " + id.Name
				return
			}
			if sel, ok := x.Fun.(*ast.SelectorExpr); ok {
				if lockNames[sel.Sel.Name] {
					why = "lock operation " + sel.Sel.Name + " in an unrecognised position"
					return
				}
				if fatalNames[sel.Sel.Name] {
					why = "call that ends the goroutine or process: " + sel.Sel.Name
					return
				}
			}
			if w := callEffect(x); w != "" {
				why = w
				return
			}
		case *ast.ForStmt:
			walk(x.Init, loops, breakables)
			walk(x.Cond, loops, breakables)
			walk(x.Post, loops, breakables)
			walk(x.Body, loops+1, breakables+1)
			return
		case *ast.RangeStmt:
			walk(x.Key, loops, breakables)
			walk(x.Value, loops, breakables)
			walk(x.X, loops, breakables)
			walk(x.Body, loops+1, breakables+1)
			return
		case *ast.SwitchStmt:
			walk(x.Init, loops, breakables)
			walk(x.Tag, loops, breakables)
			walk(x.Body, loops, breakables+1)
			return
		case *ast.TypeSwitchStmt:
			walk(x.Init, loops, breakables)
			walk(x.Assign, loops, breakables)
			walk(x.Body, loops, breakables+1)
			return
		case *ast.SelectorExpr:
			// the field name is not a use of a variable
			walk(x.X, loops, breakables)
			return
		case *ast.KeyValueExpr:
			walk(x.Value, loops, breakables)
			if _, isId := x.Key.(*ast.Ident); !isId {
				walk(x.Key, loops, breakables)
			}
			return
		}
		// generic descent over direct children
		first := true
		ast.Inspect(n, func(ch ast.Node) bool {
			if ch == nil || why != "" {
				return false
			}
			if first {
				first = false
				return true
			}
			walk(ch, loops, breakables)
			return false
		})
	}
	// interface-typed nil guards
	switch v := n.(type) {
	case ast.Expr:
		if v == nil {
			return ""
		}
	case ast.Stmt:
		if v == nil {
			return ""
		}
	}
	walk(n, 0, 0)
	return why
}

// callEffect judges a call that is not itself a lock/fatal call: a method
// call on the metric, or a call that receives the metric, must resolve to
// source that is itself plain.
func (c *pctx) callEffect(call *ast.CallExpr) string {
	passesM := false
	for _, a := range call.Args {
		if c.isM(a) {
			passesM = true
		}
	}
	if sel, ok := call.Fun.(*ast.SelectorExpr); ok && c.isM(sel.X) {
		return c.calleePlain(c.met, "Metric."+sel.Sel.Name)
	}
	if !passesM {
		return ""
	}
	switch f := call.Fun.(type) {
	case *ast.Ident:
		if tn, ok := c.funcVar[f.Name]; ok {
			// a function value of a named func type: every package-level
			// function with that signature may be called
			want := c.exp.sig(c.exp.Types[tn].(*ast.FuncType))
			var names []string
			for k, d := range c.exp.Funcs {
				if d.Recv == nil && c.exp.sig(d.Type) == want {
					names = append(names, k)
				}
			}
			sort.Strings(names)
			if len(names) == 0 {
				return "no function of type " + tn + " found"
			}
			for _, k := range names {
				if w := c.calleePlain(c.exp, k); w != "" {
					return w
				}
			}
			return ""
		}
		return c.calleePlain(c.exp, f.Name)
	}
	return "metric passed to a call that cannot be resolved: " + c.exp.src(call.Fun)
}

func (p *Pkg) sig(t *ast.FuncType) string {
	var parts []string
	add := func(fl *ast.FieldList) {
		if fl == nil {
			return
		}
		for _, f := range fl.List {
			n := len(f.Names)
			if n == 0 {
				n = 1
			}
			for i := 0; i < n; i++ {
				parts = append(parts, p.src(f.Type))
			}
		}
		parts = append(parts, "|")
	}
	add(t.Params)
	add(t.Results)
	return strings.Join(parts, ",")
}

func (c *pctx) calleePlain(p *Pkg, key string) string {
	switch c.plainFn[p.at0()+key] {
	case 1, 3:
		return ""
	case 2:
		return "callee " + key + " is not plain"
	}
	d := p.Funcs[key]
	if d == nil || d.Body == nil {
		c.plainFn[p.at0()+key] = 2
		return "callee " + key + " not found in source"
	}
	c.plainFn[p.at0()+key] = 3
	// inside the callee: its own *Metric parameters / receiver play the role of m
	sub := &pctx{exp: p, met: c.met, m: "", chans: map[string]bool{}, funcVar: map[string]string{}, plainFn: c.plainFn}
	metricIds := map[string]bool{}
	collect := func(fl *ast.FieldList) {
		if fl == nil {
			return
		}
		for _, f := range fl.List {
			if typeName(f.Type) == "Metric" {
				for _, n := range f.Names {
					metricIds[n.Name] = true
				}
			}
		}
	}
	collect(d.Recv)
	collect(d.Type.Params)
	why := ""
	for _, s := range d.Body.List {
		// returns at the callee's top level are its own
		w := plainWalkCallee(s, func(call *ast.CallExpr) string {
			for id := range metricIds {
				sub.m = id
				if w := sub.callEffect(call); w != "" {
					return w
				}
			}
			return ""
		})
		if w != "" {
			why = w
			break
		}
	}
	if why != "" {
		c.plainFn[p.at0()+key] = 2
		return "callee " + key + ": " + why
	}
	c.plainFn[p.at0()+key] = 1
	return ""
}

func (p *Pkg) at0() string {
	if len(p.Files) == 0 {
		return "?"
	}
	return p.Files[0].Name.Name + "."
}

// plainWalkCallee: like plainWalk but `return` is allowed (it ends the callee).
func plainWalkCallee(s ast.Stmt, callEffect func(*ast.CallExpr) string) string {
	why := ""
	ast.Inspect(s, func(n ast.Node) bool {
		if n == nil || why != "" {
			return false
		}
		switch x := n.(type) {
		case *ast.FuncLit:
			why = "function literal"
		case *ast.GoStmt:
			why = "go statement"
		case *ast.DeferStmt:
			why = "defer"
		case *ast.SelectStmt:
			why = "select"
		case *ast.SendStmt:
			why = "channel send"
		case *ast.UnaryExpr:
			if x.Op == token.ARROW {
				why = "channel receive"
			}
		case *ast.CallExpr:
			if id, ok := x.Fun.(*ast.Ident); ok && (id.Name == "panic" || id.Name == "close") {
				why = "call of " + id.Name
			}
			if sel, ok := x.Fun.(*ast.SelectorExpr); ok && (lockNames[sel.Sel.Name] || fatalNames[sel.Sel.Name]) {
				why = "call of " + sel.Sel.Name
			}
			if why == "" {
				why = callEffect(x)
			}
		}
		return why == ""
	})
	return why
}

// ---- the emitter ----

// EmitterIR translates Metric.EmitLabelSets: a loop over m.LabelValues whose
// body ends in an unconditional send on the channel parameter, then close.
func EmitterIR(met *Pkg) ([]string, error) {
	d := met.Funcs["Metric.EmitLabelSets"]
	if d == nil || d.Body == nil {
		return nil, fmt.Errorf("Metric.EmitLabelSets not found")
	}
	if d.Type.Params == nil || len(d.Type.Params.List) != 1 || len(d.Type.Params.List[0].Names) != 1 {
		return nil, fmt.Errorf("EmitLabelSets: want one channel parameter")
	}
	ch := d.Type.Params.List[0].Names[0].Name
	chans := map[string]bool{ch: true}
	noCalls := func(*ast.CallExpr) string { return "" }
	var out []string
	for _, s := range d.Body.List {
		switch x := s.(type) {
		case *ast.RangeStmt:
			if sel, ok := x.X.(*ast.SelectorExpr); ok && sel.Sel.Name == "LabelValues" && len(x.Body.List) > 0 {
				n := len(x.Body.List)
				send, ok := x.Body.List[n-1].(*ast.SendStmt)
				good := ok
				if ok {
					id, isId := send.Chan.(*ast.Ident)
					good = isId && id.Name == ch && plainWalk(send.Value, chans, noCalls) == ""
				}
				for _, b := range x.Body.List[:n-1] {
					if plainWalk(b, chans, noCalls) != "" {
						good = false
					}
				}
				if good {
					out = append(out, "ESendEach")
					continue
				}
			}
			out = append(out, "EUnknown")
		case *ast.ExprStmt:
			if call, ok := x.X.(*ast.CallExpr); ok {
				if id, ok := call.Fun.(*ast.Ident); ok && id.Name == "close" && len(call.Args) == 1 {
					if a, ok := call.Args[0].(*ast.Ident); ok && a.Name == ch {
						out = append(out, "EClose")
						continue
					}
				}
			}
			if plainWalk(x, chans, noCalls) == "" {
				out = append(out, "EOther")
			} else {
				out = append(out, "EUnknown")
			}
		default:
			if plainWalk(s, chans, noCalls) == "" {
				out = append(out, "EOther")
			} else {
				out = append(out, "EUnknown")
			}
		}
	}
	return out, nil
}

func EmitterCoq(e []string) string { return "[" + strings.Join(e, "; ") + "]" }
