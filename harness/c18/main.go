//go:build verif

// c18: every matching log path is tailed, once.
//
// Drives a real tailer.Tailer over a real temporary directory with histories
// of file-system operations (create, mkdir, delete, rename, chmod, append),
// pattern polls and stream polls.  Both pollers are woken through a waker
// owned by this harness; after every operation the harness waits until every
// goroutine of the tailer is parked again (read off runtime.Stack), so that
// operations are serialised exactly as in the model (Tail/Paths.v).
//
// Observed: the key set of Tailer.logstreams and the log_count expvar after
// every operation, every delivered line (tagged with the path of the stream
// and the identity of the file it was written to), and the final tree.
// Correspondence: Corr/Run_C18.v re-runs the model on the recorded history.
// Oracle: the property text as Go predicates (see checkOracle).
package main

import (
	"context"
	"fmt"
	"os"
	"path/filepath"
	"regexp"
	"runtime"
	"sort"
	"strconv"
	"strings"
	"sync"
	"syscall"
	"time"
	"unsafe"

	"github.com/google/mtail/internal/logline"
	"github.com/google/mtail/internal/tailer"
	"github.com/google/mtail/internal/zzverif/vlib"
)

// ---------------------------------------------------------------- universe

var names = []string{"a.log", "ab.log", "c.txt", "d.log"}

// pattern templates: $T is the case directory (absolute); the others are
// relative to the working directory, which is the case directory.
var patPool = []string{
	"$T/*.log",  // 0 absolute glob
	"*.log",     // 1 relative glob, same set as 0
	"$T/a*",     // 2 overlaps 0 on a.log, ab.log
	"a.log",     // 3 relative literal
	"$T/*",      // 4 everything, including c.txt and the directory
	"./a?.log",  // 5 relative, needs cleaning, only ab.log
	"$T/[cd]*",  // 6 c.txt and d.log
	"$T/./a.log", // 7 absolute literal, unclean
}
var ignPool = []string{"", "", "^ab", `\.txt$`, `^d`}

type Op struct {
	K string `json:"k"` // create mkdir mksock delete rename chmod append poll spoll
	P int    `json:"p"`
	Q int    `json:"q,omitempty"`
	R bool   `json:"r,omitempty"`
}

type Obs struct {
	Tailed   []int `json:"tailed"`
	LogCount int64 `json:"log_count"`
}

type Case struct {
	Kind      string   `json:"kind"`
	Init      []int    `json:"init"` // per path: 0 absent, 1 file, 2 directory, 3 file that cannot be opened, 4 socket
	Pats      []string `json:"pats"`
	Ignore    string   `json:"ignore"`
	Glob      [][]bool `json:"glob"` // pattern x path (filepath.Match on absolute forms)
	Ign       []bool   `json:"ign"`  // path: ignore regexp matches the base name
	Ops       []Op     `json:"ops"`
	NGen      int      `json:"ngen"` // the first NGen ops are the generated history, the rest is the fixed probe suffix
	Obs       []Obs    `json:"obs"`  // after construction, then after every op
	Delivered [][3]int `json:"delivered"`
	Tree      [][2]int `json:"tree"` // per path: kind (0 absent 1 file 2 dir 3 unreadable file 4 socket), model inode
	Hang      bool     `json:"hang,omitempty"`
}

// ---------------------------------------------------------------- waker

type vwaker struct {
	mu sync.Mutex
	ch chan struct{}
}

func newWaker() *vwaker { return &vwaker{ch: make(chan struct{})} }
func (w *vwaker) Wake() <-chan struct{} {
	w.mu.Lock()
	defer w.mu.Unlock()
	return w.ch
}
func (w *vwaker) Broadcast() {
	w.mu.Lock()
	defer w.mu.Unlock()
	close(w.ch)
	w.ch = make(chan struct{})
}

// settle waits until every goroutine with a frame in internal/tailer (tailer
// and logstream) and the line consumer are parked.  close() makes woken
// goroutines runnable before it returns, so a goroutine that has been woken
// and not yet finished its round is never reported as parked.
var stackBuf = make([]byte, 256<<10)

func settle() bool {
	buf := stackBuf
	deadline := time.Now().Add(2 * time.Second)
	for {
		n := runtime.Stack(buf, true)
		ok := true
		for _, g := range strings.Split(string(buf[:n]), "\n\n") {
			if !strings.Contains(g, "mtail/internal/tailer") && !strings.Contains(g, "main.(*run).consume") {
				continue
			}
			i, j := strings.IndexByte(g, '['), strings.IndexByte(g, ']')
			if i < 0 || j < i {
				ok = false
				break
			}
			st := g[i+1 : j]
			// parked for good: in a select (the waker), receiving from a
			// channel, or in WaitGroup.Wait.  A goroutine queueing for a
			// mutex is only transiently blocked.
			wgWait := (strings.HasPrefix(st, "semacquire") || strings.HasPrefix(st, "sync.WaitGroup")) &&
				strings.Contains(g, "sync.(*WaitGroup).Wait")
			if !(strings.HasPrefix(st, "select") || strings.HasPrefix(st, "chan receive") || wgWait) {
				ok = false
				break
			}
		}
		if ok {
			return true
		}
		if time.Now().After(deadline) {
			return false
		}
		runtime.Gosched()
		time.Sleep(20 * time.Microsecond)
	}
}

// ---------------------------------------------------------------- privileges

// dropDacOverride clears CAP_DAC_OVERRIDE and CAP_DAC_READ_SEARCH from the
// effective set of every thread, so that a mode without read permission makes
// a file unreadable even when the check runs as root.
func dropDacOverride() {
	type hdr struct {
		version uint32
		pid     int32
	}
	type data struct{ eff, perm, inh uint32 }
	h := hdr{version: 0x20080522}
	var d [2]data
	if _, _, e := syscall.RawSyscall(syscall.SYS_CAPGET, uintptr(unsafe.Pointer(&h)), uintptr(unsafe.Pointer(&d[0])), 0); e != 0 {
		return
	}
	d[0].eff &^= (1 << 1) | (1 << 2)
	_, _, _ = syscall.AllThreadsSyscall(syscall.SYS_CAPSET, uintptr(unsafe.Pointer(&h)), uintptr(unsafe.Pointer(&d[0])), 0)
}

func chmodEffective(root string) bool {
	p := filepath.Join(root, "probe")
	if err := os.WriteFile(p, []byte("x"), 0o200); err != nil {
		return false
	}
	defer os.Remove(p)
	f, err := os.Open(p)
	if err == nil {
		f.Close()
		return false
	}
	return true
}

// ---------------------------------------------------------------- one run

type run struct {
	mu    sync.Mutex
	lines [][2]string // filename, text
	done  chan struct{}
}

func (r *run) consume(ch <-chan *logline.LogLine) {
	defer close(r.done)
	for l := range ch {
		r.mu.Lock()
		r.lines = append(r.lines, [2]string{l.Filename, l.Line})
		r.mu.Unlock()
	}
}

var leaked int

type fsMirror struct {
	dir    string
	inoOf  map[uint64]int // real inode -> model inode (latest creation wins)
	nlines map[int]int    // model inode -> number of lines appended
}

func realIno(fi os.FileInfo) uint64 { return fi.Sys().(*syscall.Stat_t).Ino }

func (m *fsMirror) path(p int) string { return filepath.Join(m.dir, names[p]) }

func (m *fsMirror) create(p, ino int) {
	f, err := os.OpenFile(m.path(p), os.O_CREATE|os.O_EXCL|os.O_WRONLY, 0o644)
	if err != nil {
		return
	}
	fi, _ := f.Stat()
	f.Close()
	m.inoOf[realIno(fi)] = ino
	m.nlines[ino] = 0
}

func (m *fsMirror) mkdir(p, ino int) {
	if err := os.Mkdir(m.path(p), 0o755); err != nil {
		return
	}
	fi, _ := os.Stat(m.path(p))
	m.inoOf[realIno(fi)] = ino
}

// mksock makes an entry that exists, is no directory and cannot be streamed:
// a unix socket inode (as a daemon's control socket next to its logs).
func (m *fsMirror) mksock(p, ino int) {
	if err := syscall.Mknod(m.path(p), syscall.S_IFSOCK|0o644, 0); err != nil {
		return
	}
	fi, _ := os.Lstat(m.path(p))
	m.inoOf[realIno(fi)] = ino
}

func (m *fsMirror) apply(o Op, ino int) {
	switch o.K {
	case "create":
		m.create(o.P, ino)
	case "mkdir":
		m.mkdir(o.P, ino)
	case "mksock":
		m.mksock(o.P, ino)
	case "delete":
		_ = os.Remove(m.path(o.P))
	case "rename":
		_ = os.Rename(m.path(o.P), m.path(o.Q))
	case "chmod":
		if fi, err := os.Lstat(m.path(o.P)); err == nil && fi.Mode().IsRegular() {
			mode := os.FileMode(0o200)
			if o.R {
				mode = 0o644
			}
			_ = os.Chmod(m.path(o.P), mode)
		}
	case "append":
		fi, err := os.Lstat(m.path(o.P))
		if err != nil || !fi.Mode().IsRegular() {
			return
		}
		f, err := os.OpenFile(m.path(o.P), os.O_APPEND|os.O_WRONLY, 0)
		if err != nil {
			return
		}
		mi := m.inoOf[realIno(fi)]
		fmt.Fprintf(f, "L%d.%d\n", mi, m.nlines[mi])
		m.nlines[mi]++
		f.Close()
	}
}

func instantiate(pats []string, dir string) []string {
	r := make([]string, len(pats))
	for i, p := range pats {
		r[i] = strings.ReplaceAll(p, "$T", dir)
	}
	return r
}

// execute runs one history against a fresh tailer in a fresh directory.
func execute(root string, serial int, c *Case) {
	dir := filepath.Join(root, "k"+strconv.Itoa(serial))
	must(os.Mkdir(dir, 0o755))
	must(os.Chdir(dir))
	defer func() {
		_ = os.Chdir(root)
		_ = os.RemoveAll(dir)
	}()
	m := &fsMirror{dir: dir, inoOf: map[uint64]int{}, nlines: map[int]int{}}
	for p, k := range c.Init {
		switch k {
		case 1:
			m.create(p, p+1)
		case 2:
			m.mkdir(p, p+1)
		case 3:
			m.create(p, p+1)
			_ = os.Chmod(m.path(p), 0o200)
		case 4:
			m.mksock(p, p+1)
		}
	}
	pats := instantiate(c.Pats, dir)
	// oracle tables, from the library functions the tailer itself relies on
	c.Glob = make([][]bool, len(pats))
	for i, pt := range pats {
		ap, err := filepath.Abs(pt)
		must(err)
		c.Glob[i] = make([]bool, len(names))
		for p := range names {
			ok, err := filepath.Match(ap, m.path(p))
			must(err)
			c.Glob[i][p] = ok
		}
	}
	c.Ign = make([]bool, len(names))
	if c.Ignore != "" {
		re := regexp.MustCompile(c.Ignore)
		for p, n := range names {
			c.Ign[p] = re.MatchString(n)
		}
	}

	ctx, cancel := context.WithCancel(context.Background())
	lines := make(chan *logline.LogLine)
	var wg sync.WaitGroup
	sw, pw := newWaker(), newWaker()
	r := &run{done: make(chan struct{})}
	go r.consume(lines)
	base := tailer.VerifLogCount()
	ta, err := tailer.New(ctx, &wg, lines, tailer.LogPatterns(pats), tailer.IgnoreRegex(c.Ignore),
		tailer.LogPatternPollWaker(pw), tailer.LogstreamPollWaker(sw))
	must(err)
	idx := map[string]int{}
	for p := range names {
		idx[m.path(p)] = p
	}
	observe := func(wait bool) {
		// file-system operations start nothing in the tailer (it only acts on
		// wake-ups), so only construction and polls need to be waited for
		if wait && !c.Hang && !settle() {
			c.Hang = true
			leaked++ // some goroutine of this tailer never parks: no later settle() can succeed
		}
		o := Obs{Tailed: []int{}, LogCount: tailer.VerifLogCount() - base}
		for _, k := range ta.VerifTailed() {
			if p, ok := idx[k]; ok {
				o.Tailed = append(o.Tailed, p)
			} else {
				o.Tailed = append(o.Tailed, 100) // a key that is not one of the absolute paths
			}
		}
		sort.Ints(o.Tailed)
		c.Obs = append(c.Obs, o)
	}
	observe(true)
	for k, o := range c.Ops {
		if c.Hang {
			break
		}
		switch o.K {
		case "poll":
			pw.Broadcast()
		case "spoll":
			sw.Broadcast()
		default:
			m.apply(o, 10+k)
		}
		observe(o.K == "poll" || o.K == "spoll")
	}
	// final tree
	for p := range names {
		fi, err := os.Lstat(m.path(p))
		switch {
		case err != nil:
			c.Tree = append(c.Tree, [2]int{0, 0})
		case fi.IsDir():
			c.Tree = append(c.Tree, [2]int{2, m.inoOf[realIno(fi)]})
		case !fi.Mode().IsRegular():
			c.Tree = append(c.Tree, [2]int{4, m.inoOf[realIno(fi)]})
		default:
			k := 1
			if f, err := os.Open(m.path(p)); err != nil {
				k = 3
			} else {
				f.Close()
			}
			c.Tree = append(c.Tree, [2]int{k, m.inoOf[realIno(fi)]})
		}
	}
	r.mu.Lock()
	snapshot := append([][2]string{}, r.lines...)
	r.mu.Unlock()
	for _, l := range snapshot {
		p, ok := idx[l[0]]
		if !ok {
			p = 100
		}
		var ino, n int
		if _, err := fmt.Sscanf(l[1], "L%d.%d", &ino, &n); err != nil {
			ino, n = -1, -1
		}
		c.Delivered = append(c.Delivered, [3]int{p, ino, n})
	}
	sort.Slice(c.Delivered, func(i, j int) bool {
		a, b := c.Delivered[i], c.Delivered[j]
		if a[0] != b[0] {
			return a[0] < b[0]
		}
		if a[1] != b[1] {
			return a[1] < b[1]
		}
		return a[2] < b[2]
	})
	// shutdown
	cancel()
	fin := make(chan struct{})
	go func() { wg.Wait(); close(fin) }()
	select {
	case <-fin:
		<-r.done
	case <-time.After(2 * time.Second):
		if !c.Hang {
			leaked++
		}
		c.Hang = true
		go func() { // keep draining so that nothing else blocks
			for range lines {
			}
		}()
	}
}

var errOut *os.File

func must(err error) {
	if err != nil {
		fmt.Fprintln(errOut, "c18:", err)
		os.Exit(3)
	}
}

// ---------------------------------------------------------------- oracle

// checkOracle evaluates the property text on what the tailer did, using only
// the file system (through the mirror of the history kept here) and the
// library tables.
func checkOracle(out *vlib.Out, c *Case) {
	// replay the tree independently: kind per path after each op
	type node struct{ kind, ino int } // kind 0 absent 1 file 2 dir 3 unreadable file
	tree := make([]node, len(names))
	for p, k := range c.Init {
		if k != 0 {
			tree[p] = node{k, p + 1}
		}
	}
	report := func(class, what string) {
		out.Violate(class, what, c)
	}
	matches := func(p int) bool {
		for i := range c.Glob {
			if c.Glob[i][p] {
				return true
			}
		}
		return false
	}
	in := func(xs []int, x int) bool {
		for _, y := range xs {
			if x == y {
				return true
			}
		}
		return false
	}
	hasRename := false
	seen := map[string]bool{}
	check := func(step int, kind string) {
		if step >= len(c.Obs) {
			return
		}
		o := c.Obs[step]
		if int(o.LogCount) != len(o.Tailed) {
			report("log-count-differs-from-tailed-paths", fmt.Sprintf("after step %d log_count=%d but %d paths are tailed %v", step, o.LogCount, len(o.Tailed), o.Tailed))
		}
		for _, p := range o.Tailed {
			if p >= len(names) {
				report("tailed-key-not-absolute-path", fmt.Sprintf("after step %d a stream is registered under a key that is not an absolute path of the tree", step))
				continue
			}
			if c.Ign[p] {
				report("ignored-file-tailed", fmt.Sprintf("after step %d ignored name %s is tailed", step, names[p]))
			}
			if !matches(p) {
				report("unmatched-path-tailed", fmt.Sprintf("after step %d %s matches no pattern but is tailed", step, names[p]))
			}
			if (tree[p].kind == 2 || tree[p].kind == 4) && (kind == "spoll" || (step > 0 && !in(c.Obs[step-1].Tailed, p)) || step == 0) {
				cl, w := "directory-tailed", "directory"
				if tree[p].kind == 4 {
					cl, w = "socket-tailed", "socket"
				}
				report(cl, fmt.Sprintf("after step %d (%s) %s %s is tailed", step, kind, w, names[p]))
			}
		}
		if kind == "poll" || step == 0 {
			for p := range names {
				if tree[p].kind == 1 && matches(p) && !c.Ign[p] && !in(o.Tailed, p) {
					report("matching-file-not-tailed", fmt.Sprintf("after step %d (pattern poll) readable file %s matches and is not ignored but is not tailed", step, names[p]))
				}
			}
		}
	}
	check(0, "init")
	for k, o := range c.Ops {
		switch o.K {
		case "create":
			if tree[o.P].kind == 0 {
				tree[o.P] = node{1, 10 + k}
			}
		case "mkdir":
			if tree[o.P].kind == 0 {
				tree[o.P] = node{2, 10 + k}
			}
		case "mksock":
			if tree[o.P].kind == 0 {
				tree[o.P] = node{4, 10 + k}
			}
		case "delete":
			tree[o.P] = node{}
		case "rename":
			hasRename = true
			s, d := tree[o.P], tree[o.Q]
			if o.P != o.Q && s.kind != 0 {
				// os.Rename refuses an existing directory as target, and a
				// directory cannot replace a file
				if d.kind == 0 || (s.kind != 2 && d.kind != 2) {
					tree[o.Q] = s
					tree[o.P] = node{}
				}
			}
		case "chmod":
			if tree[o.P].kind == 1 || tree[o.P].kind == 3 {
				if o.R {
					tree[o.P].kind = 1
				} else {
					tree[o.P].kind = 3
				}
			}
		}
		check(k+1, o.K)
	}
	for p := range names {
		if k := c.Tree[p][0]; k != tree[p].kind {
			report("harness-tree-mirror-wrong", fmt.Sprintf("path %s: file system says kind %d, the oracle's replay %d", names[p], k, tree[p].kind))
		}
	}
	// delivery: the probe suffix appends one line to every file after a
	// pattern poll and wakes the streams: every readable matching unignored
	// file's probe line must arrive exactly once, under its own path.
	for _, d := range c.Delivered {
		key := fmt.Sprint(d)
		if seen[key] && !hasRename {
			report("line-delivered-twice", fmt.Sprintf("line %d of file #%d was forwarded twice under path %s", d[2], d[1], pname(d[0])))
		}
		seen[key] = true
	}
	// which (ino, idx) did the suffix append, and where?
	// count lines per inode before the suffix appends
	cnt := map[int]int{}
	{
		t := make([]node, len(names))
		for p, k := range c.Init {
			if k != 0 {
				t[p] = node{k, p + 1}
			}
		}
		for k, o := range c.Ops {
			if k >= c.NGen && o.K == "append" {
				if n := tree[o.P]; n.kind == 1 || n.kind == 3 {
					idxn := cnt[n.ino]
					own, other := 0, 0
					for _, d := range c.Delivered {
						if d[1] == n.ino && d[2] == idxn {
							if d[0] == o.P {
								own++
							} else {
								other++
							}
						}
					}
					// a stream that still holds the file under the name it had
					// before a rename forwards it under that name: only without
					// renames must every copy carry the file's own path
					if other > 0 && !hasRename {
						report("line-forwarded-under-wrong-path", fmt.Sprintf("probe line of %s arrived under another path", names[o.P]))
					}
					if n.kind == 1 && matches(o.P) && !c.Ign[o.P] {
						if own == 0 {
							report("line-not-delivered", fmt.Sprintf("%s is a readable matching file at the pattern poll, a line appended afterwards was never forwarded under its path", names[o.P]))
						}
					}
					if own > 1 {
						report("line-delivered-twice", fmt.Sprintf("probe line of %s was forwarded %d times under its path", names[o.P], own))
					}
				}
			}
			// maintain t and cnt like the history
			switch o.K {
			case "create":
				if t[o.P].kind == 0 {
					t[o.P] = node{1, 10 + k}
				}
			case "mkdir":
				if t[o.P].kind == 0 {
					t[o.P] = node{2, 10 + k}
				}
			case "mksock":
				if t[o.P].kind == 0 {
					t[o.P] = node{4, 10 + k}
				}
			case "delete":
				t[o.P] = node{}
			case "rename":
				s, d := t[o.P], t[o.Q]
				if o.P != o.Q && s.kind != 0 && (d.kind == 0 || (s.kind != 2 && d.kind != 2)) {
					t[o.Q] = s
					t[o.P] = node{}
				}
			case "append":
				if n := t[o.P]; n.kind == 1 || n.kind == 3 {
					cnt[n.ino]++
				}
			}
		}
	}
	if c.Hang {
		report("tailer-does-not-settle-or-stop", "the tailer's goroutines did not park after an operation, or did not finish within 2 s of cancellation (a leaked stream)")
	}
}

func pname(p int) string {
	if p >= 0 && p < len(names) {
		return names[p]
	}
	return "?"
}

// ---------------------------------------------------------------- Coq

func coqOp(o Op) string {
	switch o.K {
	case "create":
		return vlib.App("Create", vlib.N(uint64(o.P)))
	case "mkdir":
		return vlib.App("Mkdir", vlib.N(uint64(o.P)))
	case "mksock":
		return vlib.App("Mksock", vlib.N(uint64(o.P)))
	case "delete":
		return vlib.App("Delete", vlib.N(uint64(o.P)))
	case "rename":
		return vlib.App("Rename", vlib.N(uint64(o.P)), vlib.N(uint64(o.Q)))
	case "chmod":
		return vlib.App("Chmod", vlib.N(uint64(o.P)), vlib.Bool(o.R))
	case "append":
		return vlib.App("Append", vlib.N(uint64(o.P)))
	case "poll":
		return "Poll"
	}
	return "StreamPoll"
}

func ns(xs []int) string {
	r := make([]string, len(xs))
	for i, x := range xs {
		r[i] = vlib.N(uint64(x))
	}
	return vlib.List(r)
}
func bs(xs []bool) string {
	r := make([]string, len(xs))
	for i, x := range xs {
		r[i] = vlib.Bool(x)
	}
	return vlib.List(r)
}

func coqCase(id uint64, c *Case) string {
	glob := make([]string, len(c.Glob))
	for i, g := range c.Glob {
		glob[i] = bs(g)
	}
	ops := make([]string, len(c.Ops))
	for i, o := range c.Ops {
		ops[i] = coqOp(o)
	}
	obs := make([]string, len(c.Obs))
	for i, o := range c.Obs {
		obs[i] = "(" + ns(o.Tailed) + ", " + vlib.Z(o.LogCount) + ")"
	}
	dl := make([]string, len(c.Delivered))
	for i, d := range c.Delivered {
		if d[1] < 0 || d[2] < 0 {
			d[1], d[2] = 999999, 999999
		}
		dl[i] = fmt.Sprintf("(%d, %d, %d)", d[0], d[1], d[2])
	}
	tr := make([]string, len(c.Tree))
	for i, t := range c.Tree {
		tr[i] = fmt.Sprintf("(%d, %d)", t[0], t[1])
	}
	return vlib.App("C18Run", vlib.N(id), ns(c.Init), vlib.List(glob), bs(c.Ign), vlib.List(ops),
		vlib.List(obs), vlib.List(dl), vlib.List(tr))
}

// ---------------------------------------------------------------- generation

var suffix = []Op{{K: "poll"}, {K: "append", P: 0}, {K: "append", P: 1}, {K: "append", P: 2}, {K: "append", P: 3}, {K: "spoll"}}

// the reduced alphabet for the exhaustive sweep concentrates on a.log, with
// ab.log and the directory d.log as rename partners
var smallAlphabet = []Op{
	{K: "create", P: 0}, {K: "delete", P: 0}, {K: "mkdir", P: 0}, {K: "append", P: 0},
	{K: "rename", P: 0, Q: 1}, {K: "rename", P: 1, Q: 0}, {K: "rename", P: 3, Q: 0},
	{K: "chmod", P: 0, R: false}, {K: "chmod", P: 0, R: true},
	{K: "delete", P: 1}, {K: "create", P: 1},
	{K: "poll"}, {K: "spoll"},
}

func fullAlphabet(chmod bool) []Op {
	var a []Op
	for p := range names {
		a = append(a, Op{K: "create", P: p}, Op{K: "mkdir", P: p}, Op{K: "mksock", P: p}, Op{K: "delete", P: p}, Op{K: "append", P: p}, Op{K: "append", P: p})
		if chmod {
			a = append(a, Op{K: "chmod", P: p, R: false}, Op{K: "chmod", P: p, R: true})
		}
		for q := range names {
			if p != q {
				a = append(a, Op{K: "rename", P: p, Q: q})
			}
		}
	}
	for i := 0; i < 8; i++ {
		a = append(a, Op{K: "poll"}, Op{K: "spoll"})
	}
	return a
}

func main() {
	a := vlib.ParseArgs()
	// glog writes to os.Stderr; a stream that spins logs gigabytes
	errOut = os.Stderr
	if null, err := os.OpenFile(os.DevNull, os.O_WRONLY, 0); err == nil {
		os.Stderr = null
	}
	out := vlib.NewOut(a, "From V Require Import Corr.Run_C18.", "c18case", 1000)
	rng := vlib.NewRand(a.Seed)
	dropDacOverride()
	root, err := os.MkdirTemp("", "c18-")
	must(err)
	defer os.RemoveAll(root)
	chmodOK := chmodEffective(root)
	out.Extra["chmod_makes_unreadable"] = chmodOK

	if a.Replay != "" {
		var v struct {
			Case Case `json:"case"`
		}
		vlib.ReadJSON(a.Replay, &v)
		c := v.Case
		c.Obs, c.Delivered, c.Tree, c.Hang = nil, nil, nil, false
		execute(root, 0, &c)
		o2 := vlib.NewOut(a, "", "", 1)
		checkOracle(o2, &c)
		fmt.Printf("patterns %v ignore %q init %v\nops %+v\nobserved %+v\ndelivered %v\n", c.Pats, c.Ignore, c.Init, c.Ops, c.Obs, c.Delivered)
		for _, v := range o2.Viol {
			fmt.Printf("FAILS [%s]: %s\n", v.Class, v.What)
		}
		if len(o2.Viol) > 0 {
			os.RemoveAll(root)
			os.Exit(1)
		}
		fmt.Println("holds")
		return
	}

	serial := 0
	limit, _ := strconv.Atoi(os.Getenv("C18_LIMIT"))
	runCase := func(c *Case, tag string) {
		if leaked >= 1 || (limit > 0 && serial >= limit) {
			return // a leaked stream never parks again, so nothing further can be serialised
		}
		c.Kind = "hist"
		c.NGen = len(c.Ops)
		c.Ops = append(append([]Op{}, c.Ops...), suffix...)
		serial++
		execute(root, serial, c)
		checkOracle(out, c)
		nontriv := false
		// non-trivial: the tailed set changes at least once after construction
		for i := 1; i < len(c.Obs); i++ {
			if fmt.Sprint(c.Obs[i].Tailed) != fmt.Sprint(c.Obs[i-1].Tailed) {
				nontriv = true
			}
		}
		id := out.NextID()
		out.Add(coqCase(id, c), c, nontriv)
		out.Count(fmt.Sprintf("%s/len%d/pats%d", tag, c.NGen, len(c.Pats)))
		if len(c.Delivered) > 0 {
			out.Count("with-delivered-lines")
		}
	}

	// ---- 1. exhaustive histories over the reduced alphabet
	maxLen := 3
	if a.Thorough() {
		maxLen = 4
	}
	alpha := smallAlphabet
	if !chmodOK {
		alpha = nil
		for _, o := range smallAlphabet {
			if o.K != "chmod" {
				alpha = append(alpha, o)
			}
		}
	}
	exCfg := Case{Init: []int{1, 0, 1, 2}, Pats: []string{patPool[0], patPool[2], patPool[3]}, Ignore: ""}
	var rec func(cfg Case, tag string, depth int, prefix []Op)
	rec = func(cfg Case, tag string, depth int, prefix []Op) {
		c := cfg
		c.Ops = prefix
		runCase(&c, tag)
		if len(prefix) == depth {
			return
		}
		for _, o := range alpha {
			rec(cfg, tag, depth, append(append([]Op{}, prefix...), o))
		}
	}
	rec(exCfg, "exhaustive", maxLen, nil)
	// the same alphabet, one level less, over trees in which an entry that
	// matches the single pattern, is not ignored and cannot be streamed (a
	// socket; a file that cannot be opened) sorts BEFORE and AFTER readable
	// files: one un-tailable match must not keep the others from being tailed
	unopenable := []Case{
		{Init: []int{4, 1, 1, 2}, Pats: []string{patPool[0]}},  // a.log socket, ab.log file; $T/*.log
		{Init: []int{1, 4, 1, 0}, Pats: []string{patPool[4]}},  // ab.log socket between a.log and c.txt; $T/*
		{Init: []int{0, 1, 1, 4}, Pats: []string{patPool[4]}},  // a.log absent (created by the history), d.log socket last
	}
	if chmodOK {
		unopenable = append(unopenable,
			Case{Init: []int{3, 1, 1, 2}, Pats: []string{patPool[0]}}, // a.log cannot be opened, ab.log can
			Case{Init: []int{1, 3, 1, 0}, Pats: []string{patPool[4], patPool[1]}})
	}
	for _, cfg := range unopenable {
		rec(cfg, "exhaustive-unopenable", maxLen-1, nil)
	}

	// ---- 2. scenarios kept from findings (the corpus)
	corpus := [][]Op{
		{{K: "delete", P: 0}, {K: "mkdir", P: 0}, {K: "spoll"}, {K: "delete", P: 0}, {K: "create", P: 0}},
		{{K: "delete", P: 0}, {K: "rename", P: 3, Q: 0}, {K: "spoll"}},
	}
	if chmodOK {
		corpus = append(corpus,
			[]Op{{K: "create", P: 1}, {K: "chmod", P: 1, R: false}, {K: "rename", P: 1, Q: 0}, {K: "spoll"}, {K: "chmod", P: 0, R: true}},
			[]Op{{K: "delete", P: 0}, {K: "create", P: 0}, {K: "chmod", P: 0, R: false}, {K: "spoll"}, {K: "chmod", P: 0, R: true}, {K: "poll"}})
	}
	for _, h := range corpus {
		c := exCfg
		c.Ops = h
		runCase(&c, "corpus")
	}

	// ---- 3. random configurations and histories over the full alphabet
	nr := 700
	if a.Thorough() {
		nr = 12000
	}
	full := fullAlphabet(chmodOK)
	for i := 0; i < nr; i++ {
		var c Case
		np := 1 + rng.Intn(3)
		for j := 0; j < np; j++ {
			c.Pats = append(c.Pats, vlib.Pick(rng, patPool))
		}
		c.Ignore = vlib.Pick(rng, ignPool)
		c.Init = make([]int, len(names))
		for p := range names {
			switch {
			case p == 3:
				c.Init[p] = 2 * rng.Intn(2)
			case rng.Chance(60):
				c.Init[p] = 1
			case rng.Chance(25):
				c.Init[p] = 4
			case rng.Chance(25) && chmodOK:
				c.Init[p] = 3
			case rng.Chance(15):
				c.Init[p] = 2
			}
		}
		n := 1 + rng.Intn(4)
		if rng.Chance(30) {
			n = 5 + rng.Intn(4)
		}
		for j := 0; j < n; j++ {
			c.Ops = append(c.Ops, vlib.Pick(rng, full))
		}
		runCase(&c, "random")
	}
	out.Extra["leaked_tailers"] = leaked
	out.Flush("histories of create/mkdir/mksock/delete/rename/chmod/append/pattern-poll/stream-poll over a real directory with 4 names (each may be a file, a file that cannot be opened, a directory or a unix socket), 1-3 patterns from a pool of absolute/relative/overlapping globs and an optional ignore regexp, each followed by a fixed probe suffix (pattern poll, one append per name, stream poll); exhaustive up to the stated length over a 13-operation alphabet for one configuration (3 overlapping patterns), one level less for 3-5 single-pattern trees with an un-streamable matching entry sorting before / between / after readable files, plus random histories of length 1-8 over the full alphabet; a case is non-trivial when the set of tailed paths changes at least once after construction",
		false)
}
