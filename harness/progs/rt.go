//go:build verif

package progs

import (
	"bytes"
	"context"
	"crypto/sha256"
	"encoding/hex"
	"expvar"
	"fmt"
	"os"
	"sort"
	"strconv"
	"strings"
	"sync"
	"time"

	"github.com/google/mtail/internal/exporter"
	"github.com/google/mtail/internal/logline"
	"github.com/google/mtail/internal/metrics"
	"github.com/google/mtail/internal/metrics/datum"
	"github.com/google/mtail/internal/runtime"
	"github.com/google/mtail/internal/runtime/compiler"
	"github.com/google/mtail/internal/zzverif/vlib"
	"github.com/prometheus/client_golang/prometheus"
	dto "github.com/prometheus/client_model/go"
)

// Sources interns program texts: identical text <-> identical id (the model's
// stand-in for the SHA-256 of the text).
type Sources struct {
	ids   map[string]int
	Texts []string
}

func NewSources() *Sources { return &Sources{ids: map[string]int{}} }
func (s *Sources) ID(text string) int {
	if id, ok := s.ids[text]; ok {
		return id
	}
	id := len(s.Texts)
	s.ids[text] = id
	s.Texts = append(s.Texts, text)
	return id
}
func hashOf(text string) string {
	h := sha256.Sum256([]byte(text))
	return hex.EncodeToString(h[:])
}

// ---- snapshot ----

type LV struct {
	Ls   []string `json:"ls"`
	Ty   string   `json:"ty"` // int | float | hist (I = count, Sum = sum of the integer observations)
	Sum  int64    `json:"sum,omitempty"`
	Str  string   `json:"str,omitempty"` // ty string
	I    int64    `json:"i,omitempty"`
	Bits uint64   `json:"bits,omitempty"`
	T    int      `json:"t"`   // 0 = zero time, k = stamped during step k
	Exp  int64    `json:"exp"` // ns
}

type DeclObs struct {
	Name   string   `json:"name"`
	Kind   int      `json:"kind"`
	Type   int      `json:"type"`
	Keys   []string `json:"keys"`
	Source string   `json:"source"`
	Hidden bool     `json:"hidden"`
}

type MSnap struct {
	Prog  string  `json:"prog"`
	Decl  DeclObs `json:"decl"`
	VMIdx int     `json:"vmidx"` // -1: not held by the running VM of Prog
	LVs   []LV    `json:"lvs"`
}

type HMetric struct {
	Decl DeclObs `json:"decl"`
	LVs  []LV    `json:"lvs"`
}

type HSnap struct {
	Prog    string    `json:"prog"`
	Src     int       `json:"src"`
	Metrics []HMetric `json:"metrics"`
}

type NamedMetrics struct {
	Name    string  `json:"name"`
	Metrics []MSnap `json:"metrics"`
}

type ProgCounters struct {
	Prog                         string `json:"prog"`
	Loads, Errs, Unloads, RtErrs int64
}

type Counters struct {
	Lines    int64          `json:"lines"`
	RawLines int64          `json:"raw_lines"`
	Sent     int64          `json:"sent"`
	Progs    []ProgCounters `json:"progs"`
}

type Snap struct {
	Store    []NamedMetrics `json:"store"`
	Handles  []HSnap        `json:"handles"`
	Counters *Counters      `json:"counters,omitempty"`
}

// ---- runtime driver ----

type RT struct {
	R     *runtime.Runtime
	Store *metrics.Store
	Srcs  *Sources
	lines chan *logline.LogLine
	wg    sync.WaitGroup
	// starts[k] is the wall clock (ns) when step k began; step 0 is "before".
	starts []int64
	byHash map[string]int
	// baseline of the process-wide expvars at creation
	base     map[string]map[string]int64
	baseLine int64
	Sent     int64 // lines pushed into the runtime's channel (incl. barrier lines)
	SyncSent int64 // of which barrier lines
	progs    map[string]bool
	// Prometheus: as in mtail.Server the exporter is registered while the
	// store is still empty (an unchecked collector) and gathered later
	exp     *exporter.Exporter
	reg     *prometheus.Registry
	expStop context.CancelFunc
}

func NewRT(srcs *Sources, programPath string, opts ...runtime.Option) (*RT, error) {
	rt := &RT{Store: metrics.NewStore(), Srcs: srcs, lines: make(chan *logline.LogLine), byHash: map[string]int{}, progs: map[string]bool{}}
	rt.base = map[string]map[string]int64{}
	for _, n := range expMaps {
		rt.base[n] = readMap(n)
	}
	rt.baseLine = readInt("lines_total")
	rt.starts = []int64{time.Now().UnixNano()}
	r, err := runtime.New(rt.lines, &rt.wg, programPath, rt.Store, opts...)
	if err != nil {
		return nil, err
	}
	rt.R = r
	ctx, cancel := context.WithCancel(context.Background())
	rt.expStop = cancel
	if e, err := exporter.New(ctx, rt.Store, exporter.Hostname("verif")); err == nil {
		rt.exp = e
		rt.reg = prometheus.NewRegistry()
		if err := rt.reg.Register(e); err != nil {
			rt.reg = nil
		}
	}
	return rt, nil
}

// Series is one exported Prometheus sample.
type Series struct {
	Name   string            `json:"name"`
	Labels map[string]string `json:"labels"`
	Value  float64           `json:"value"`
}

// Scrape gathers the registry as /metrics does and returns the samples by the
// value of their prog label, each list sorted; err is the Gather error.
func (rt *RT) Scrape() (map[string][]string, error) {
	out := map[string][]string{}
	if rt.reg == nil {
		return out, fmt.Errorf("exporter not registered")
	}
	mfs, err := rt.reg.Gather()
	for _, mf := range mfs {
		for _, m := range mf.GetMetric() {
			prog := ""
			var ls []string
			for _, lp := range m.GetLabel() {
				if lp.GetName() == "prog" {
					prog = lp.GetValue()
				}
				ls = append(ls, lp.GetName()+"="+strconv.Quote(lp.GetValue()))
			}
			sort.Strings(ls)
			if hg := m.GetHistogram(); hg != nil {
				out[prog] = append(out[prog], fmt.Sprintf("%s{%s} hist:%d:%v", mf.GetName(), strings.Join(ls, ","), hg.GetSampleCount(), hg.GetSampleSum()))
				continue
			}
			out[prog] = append(out[prog], fmt.Sprintf("%s{%s} %v", mf.GetName(), strings.Join(ls, ","), sampleValue(m)))
		}
	}
	for k := range out {
		sort.Strings(out[k])
	}
	return out, err
}

func sampleValue(m *dto.Metric) float64 {
	switch {
	case m.Counter != nil:
		return m.Counter.GetValue()
	case m.Gauge != nil:
		return m.Gauge.GetValue()
	case m.Untyped != nil:
		return m.Untyped.GetValue()
	}
	return 0
}

var slowCounter bool

var expMaps = []string{"prog_loads_total", "prog_load_errors_total", "prog_unloads_total", "prog_runtime_errors_total"}

func readMap(name string) map[string]int64 {
	out := map[string]int64{}
	v, ok := expvar.Get(name).(*expvar.Map)
	if !ok || v == nil {
		return out
	}
	v.Do(func(kv expvar.KeyValue) {
		if i, ok := kv.Value.(*expvar.Int); ok {
			out[kv.Key] = i.Value()
		}
	})
	return out
}
func readInt(name string) int64 {
	if v, ok := expvar.Get(name).(*expvar.Int); ok && v != nil {
		return v.Value()
	}
	return 0
}

// Tick starts step k (1-based) and returns k.
func (rt *RT) Tick() int {
	// keep steps at least a few microseconds apart so that a stamp belongs to
	// exactly one step
	time.Sleep(20 * time.Microsecond)
	rt.starts = append(rt.starts, time.Now().UnixNano())
	return len(rt.starts) - 1
}

func (rt *RT) Now() int { return len(rt.starts) - 1 }

func (rt *RT) class(ns int64) int {
	if ns == 0 {
		return 0
	}
	k := sort.Search(len(rt.starts), func(i int) bool { return rt.starts[i] > ns }) - 1
	if k < 0 {
		return -1
	}
	return k
}

const SyncLine = "#"

func (rt *RT) push(s string) {
	rt.lines <- logline.New(context.Background(), "log", s)
	rt.Sent++
}

// Line delivers one line and waits until every VM has finished it: the loop in
// runtime.New accepts the second barrier line only after every VM accepted the
// first, which a VM does only after finishing the real line.
func (rt *RT) Line(s string) {
	rt.push(s)
	rt.push(SyncLine)
	rt.push(SyncLine)
	rt.SyncSent += 2
}

func (rt *RT) Load(name, text string) error {
	rt.byHash[hashOf(text)] = rt.Srcs.ID(text)
	rt.progs[name] = true
	return rt.R.CompileAndRun(name, strings.NewReader(text))
}

func (rt *RT) NoteSource(text string) { rt.byHash[hashOf(text)] = rt.Srcs.ID(text) }
func (rt *RT) NoteProg(name string)   { rt.progs[name] = true }

// Unload calls UnloadProgram when the program is running (LoadAllPrograms, the
// only caller in mtail, does the same; the call panics otherwise).
func (rt *RT) Unload(name string) {
	for _, h := range rt.R.VerifHandles() {
		if h.Name == name {
			rt.R.UnloadProgram(name)
			return
		}
	}
}

// Quiet sends glog's stderr output (vlib sets logtostderr so that no log file
// is created) to /dev/null; returns the real stderr for the harness itself.
func Quiet() *os.File {
	real := os.Stderr
	if f, err := os.OpenFile(os.DevNull, os.O_WRONLY, 0); err == nil {
		os.Stderr = f
	}
	return real
}

func (rt *RT) Gc() {
	time.Sleep(3 * time.Millisecond)
	_ = rt.Store.Gc()
}

// Mark calls Metric.ExpireDatum on the m-th metric of prog's running vm (what
// the vm's expire instruction does for `del ... after`); errors are ignored, as
// in the model (no running version, no such metric, no such label values).
func (rt *RT) Mark(prog string, m int, labels []string, exp int64) {
	for _, h := range rt.R.VerifHandles() {
		if h.Name == prog && m < len(h.VM.Metrics) {
			_ = h.VM.Metrics[m].ExpireDatum(time.Duration(exp), labels...)
		}
	}
}

func (rt *RT) Close() {
	close(rt.lines)
	rt.wg.Wait()
	if rt.exp != nil {
		rt.exp.Stop()
	}
	rt.expStop()
}

func declObs(m *metrics.Metric) DeclObs {
	return DeclObs{Name: m.Name, Kind: int(m.Kind), Type: int(m.Type), Keys: append([]string{}, m.Keys...), Source: m.Source, Hidden: m.Hidden}
}

func (rt *RT) lvs(m *metrics.Metric) []LV {
	out := []LV{}
	for _, lv := range m.LabelValues {
		x := LV{Ls: append([]string{}, lv.Labels...), Exp: int64(lv.Expiry)}
		switch d := lv.Value.(type) {
		case *datum.Int:
			x.Ty, x.I = "int", d.Get()
			x.T = rt.class(d.Time)
		case *datum.Float:
			x.Ty, x.Bits = "float", d.Valuebits
			x.T = rt.class(d.Time)
		case *datum.String:
			x.Ty, x.Str = "string", d.Get()
			x.T = rt.class(d.Time)
		case *datum.Buckets:
			x.Ty, x.I, x.Sum = "hist", int64(d.GetCount()), int64(d.GetSum())
			x.T = rt.class(d.Time)
		default:
			x.Ty = "other"
		}
		out = append(out, x)
	}
	return out
}

// Snapshot must be called when the runtime is quiescent (after Line / Load).
func (rt *RT) Snapshot(withCounters bool) Snap {
	var s Snap
	hs := rt.R.VerifHandles()
	held := map[*metrics.Metric]int{}
	for _, h := range hs {
		hsn := HSnap{Prog: h.Name, Src: -1}
		if id, ok := rt.byHash[h.Hash]; ok {
			hsn.Src = id
		}
		for i, m := range h.VM.Metrics {
			held[m] = i
			hsn.Metrics = append(hsn.Metrics, HMetric{declObs(m), rt.lvs(m)})
		}
		s.Handles = append(s.Handles, hsn)
	}
	names := []string{}
	for n := range rt.Store.Metrics {
		names = append(names, n)
	}
	sort.Strings(names)
	for _, n := range names {
		nm := NamedMetrics{Name: n}
		for _, m := range rt.Store.Metrics[n] {
			idx := -1
			if i, ok := held[m]; ok {
				idx = i
			}
			nm.Metrics = append(nm.Metrics, MSnap{Prog: m.Program, Decl: declObs(m), VMIdx: idx, LVs: rt.lvs(m)})
		}
		if len(nm.Metrics) > 0 {
			s.Store = append(s.Store, nm)
		}
	}
	if withCounters {
		s.Counters = rt.CountersNow()
	}
	return s
}

func (rt *RT) CountersNow() *Counters {
	// the fan-out loop counts a line just after taking it from the channel:
	// give it a moment to count the last barrier line
	limit := 2000
	if slowCounter {
		limit = 20 // it never caught up before: do not wait two seconds at every step
	}
	i := 0
	for ; i < limit && readInt("lines_total")-rt.baseLine < rt.Sent; i++ {
		time.Sleep(time.Millisecond)
	}
	if i == limit {
		slowCounter = true
	}
	// Lines: lines_total minus the barrier lines the driver itself pushed (the
	// exact total is checked against Sent by the C25 oracle)
	c := &Counters{Lines: readInt("lines_total") - rt.baseLine - rt.SyncSent, RawLines: readInt("lines_total") - rt.baseLine, Sent: rt.Sent}
	cur := map[string]map[string]int64{}
	keys := map[string]bool{}
	for _, n := range expMaps {
		cur[n] = readMap(n)
		for k := range cur[n] {
			keys[k] = true
		}
	}
	for k := range rt.progs {
		keys[k] = true
	}
	ks := []string{}
	for k := range keys {
		ks = append(ks, k)
	}
	sort.Strings(ks)
	for _, k := range ks {
		d := func(n string) int64 { return cur[n][k] - rt.base[n][k] }
		pc := ProgCounters{Prog: k, Loads: d(expMaps[0]), Errs: d(expMaps[1]), Unloads: d(expMaps[2]), RtErrs: d(expMaps[3])}
		if !rt.progs[k] && pc.Loads == 0 && pc.Errs == 0 && pc.Unloads == 0 && pc.RtErrs == 0 {
			continue // another Runtime's program in this process
		}
		c.Progs = append(c.Progs, pc)
	}
	return c
}

// CompileDecls tabulates the `compile` oracle: the metric table the real
// compiler produces for text under program name, or ok=false.
func CompileDecls(name, text string) ([]DeclObs, bool) {
	c, err := compiler.New()
	if err != nil {
		panic(err)
	}
	obj, err := c.Compile(name, bytes.NewReader([]byte(text)))
	if err != nil || obj == nil {
		return nil, false
	}
	out := []DeclObs{}
	for _, m := range obj.Metrics {
		out = append(out, declObs(m))
	}
	return out, true
}

// ---- Coq printing ----

// Header is the first line(s) of a case file importing the given Corr module.
func Header(corr string) string {
	return "From V Require Import Corr." + corr + ".\nFrom Coq Require Import String."
}

// B renders a byte string; plain printable ASCII goes through the `bs`
// conversion of Corr/LoaderRun.v (a string literal elaborates far faster than
// a list of numbers).
func B(s string) string {
	return share("s", rawB(s))
}

// interning: within one case every distinct byte string and declaration is
// bound once by a `let` in front of the case term.
type interner struct {
	names map[string]string
	defs  []string
}

var cur *interner

func share(prefix, term string) string {
	if cur == nil {
		return term
	}
	if n, ok := cur.names[term]; ok {
		return n
	}
	n := fmt.Sprintf("%s%d", prefix, len(cur.defs))
	cur.names[term] = n
	cur.defs = append(cur.defs, "let "+n+" := "+term+" in ")
	return n
}

// WithSharing renders a term with f and wraps it in the shared bindings.
func WithSharing(f func() string) string {
	cur = &interner{names: map[string]string{}}
	body := f()
	defs := strings.Join(cur.defs, "\n")
	cur = nil
	return "(" + defs + "\n" + body + ")"
}

func rawB(s string) string {
	for i := 0; i < len(s); i++ {
		if s[i] < 32 || s[i] > 126 || s[i] == '"' {
			return vlib.Bytes(s)
		}
	}
	return "(bs \"" + s + "\"%string)"
}

func T(ls []string) string {
	xs := make([]string, len(ls))
	for i, l := range ls {
		xs[i] = B(l)
	}
	return vlib.List(xs)
}

func CoqDecl(d DeclObs) string {
	return share("d", vlib.App("mkdecl", B(d.Name), strconv.Itoa(d.Kind), strconv.Itoa(d.Type), T(d.Keys), B(d.Source), vlib.Bool(d.Hidden)))
}

func coqDval(ty string, i int64, bits uint64) string {
	if ty == "float" {
		return vlib.App("DFloat", vlib.N(bits))
	}
	return vlib.App("DInt", vlib.Z(i))
}

func coqLVs(l []LV) string {
	xs := make([]string, len(l))
	for i, x := range l {
		dv := coqDval(x.Ty, x.I, x.Bits)
		if x.Ty == "hist" {
			dv = vlib.App("DHist", strconv.FormatInt(x.I, 10), vlib.Z(x.Sum))
		}
		if x.Ty == "string" {
			dv = vlib.App("DStr", B(x.Str))
		}
		xs[i] = vlib.App("mkolv", T(x.Ls), dv, vlib.Z(int64(x.T)), vlib.Z(x.Exp))
	}
	return vlib.List(xs)
}

func CoqSnap(s Snap) string {
	st := make([]string, len(s.Store))
	for i, nm := range s.Store {
		ms := make([]string, len(nm.Metrics))
		for j, m := range nm.Metrics {
			idx := "None"
			if m.VMIdx >= 0 {
				idx = vlib.Some(vlib.Nat(m.VMIdx))
			}
			ms[j] = vlib.App("mkom", B(m.Prog), CoqDecl(m.Decl), idx, coqLVs(m.LVs))
		}
		st[i] = "(" + B(nm.Name) + ", " + vlib.List(ms) + ")"
	}
	hs := make([]string, len(s.Handles))
	for i, h := range s.Handles {
		ms := make([]string, len(h.Metrics))
		for j, m := range h.Metrics {
			ms[j] = "(" + CoqDecl(m.Decl) + ", " + coqLVs(m.LVs) + ")"
		}
		src := h.Src
		if src < 0 {
			src = 999999
		}
		hs[i] = vlib.App("mkoh", B(h.Prog), strconv.Itoa(src), vlib.List(ms))
	}
	cs := "None"
	if s.Counters != nil {
		ps := make([]string, len(s.Counters.Progs))
		for i, p := range s.Counters.Progs {
			ps[i] = fmt.Sprintf("(%s, (%d, %d, %d, %d))", B(p.Prog), p.Loads, p.Errs, p.Unloads, p.RtErrs)
		}
		cs = vlib.Some(vlib.App("mkoc", strconv.FormatInt(s.Counters.Lines, 10), vlib.List(ps)))
	}
	return vlib.App("mksnap", vlib.List(st), vlib.List(hs), cs)
}

func CoqEffect(e Effect) string {
	m := vlib.Nat(e.M)
	switch e.Op {
	case "inc":
		return vlib.App("EInc", m, T(e.Ls), vlib.Z(1))
	case "set":
		return vlib.App("ESet", m, T(e.Ls), vlib.App("DInt", vlib.Z(e.Val)))
	case "setf":
		return vlib.App("ESet", m, T(e.Ls), vlib.App("DFloat", vlib.N(e.Bits)))
	case "del":
		return vlib.App("EDel", m, T(e.Ls))
	case "expire":
		return vlib.App("EExpire", m, T(e.Ls), vlib.Z(e.Dur))
	case "obs":
		return vlib.App("EObs", m, T(e.Ls), vlib.Z(e.Val))
	case "sets":
		return vlib.App("ESet", m, T(e.Ls), vlib.App("DStr", B(e.Str)))
	case "fail":
		return "EFail"
	}
	panic("effect " + e.Op)
}
