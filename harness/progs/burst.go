//go:build verif

package progs

import "strings"

// InertRule never matches a line of the harness (no generated line holds
// twelve 'a's followed by a final 'b') but the regexp engine walks the whole
// line for it: on a long line of 'a's a program carrying many copies is busy
// for a time proportional to copies x length.
const InertRule = "/(?:.*a){12}b$/ {\n  stop\n}\n"

// InertPattern is the regular expression of InertRule (for calibration).
const InertPattern = `(?:.*a){12}b$`

// FillLine is the long line of a burst.
func FillLine(n int) string { return strings.Repeat("a", n) }

// BurstLines lists the lines of a burst op in the order they are sent.
func (o Op) BurstLines() []string {
	var out []string
	if o.Fill > 0 {
		out = append(out, FillLine(o.Fill))
	}
	return append(out, o.Lines...)
}

// Burst sends the lines back to back - the next one as soon as the fan-out
// loop takes it, whatever the vms are doing - and then waits, with the two
// barrier lines of Line, until every vm has finished all of them.
func (rt *RT) Burst(lines []string) {
	for _, s := range lines {
		rt.push(s)
	}
	rt.push(SyncLine)
	rt.push(SyncLine)
	rt.SyncSent += 2
}
