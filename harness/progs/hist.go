//go:build verif

package progs

import (
	"fmt"
	"os"
	"path/filepath"
	"sort"
	"strconv"

	"github.com/google/mtail/internal/runtime"
	"github.com/google/mtail/internal/zzverif/vlib"
)

// World holds the interned sources and lines of one case together with the
// generator-side AST of every source (needed by the reference interpreter).
type World struct {
	Srcs  *Sources
	Asts  []*Prog // by source id
	Lines []string
	lids  map[string]int
}

func NewWorld() *World { return &World{Srcs: NewSources(), lids: map[string]int{}} }

func (w *World) Src(p *Prog) int {
	id := w.Srcs.ID(p.Source())
	for len(w.Asts) <= id {
		w.Asts = append(w.Asts, nil)
	}
	if w.Asts[id] == nil {
		w.Asts[id] = p
	}
	return id
}
func (w *World) LineID(s string) int {
	if id, ok := w.lids[s]; ok {
		return id
	}
	id := len(w.Lines)
	w.lids[s] = id
	w.Lines = append(w.Lines, s)
	return id
}

type DirEnt struct {
	Name string `json:"name"`
	Dir  bool   `json:"dir,omitempty"`
	Src  int    `json:"src"`
	// the file is rewritten with its previous modification time restored
	// (cp -p, rsync -t): size and mtime alone do not tell that it changed
	KeepStamp bool `json:"keep_stamp,omitempty"`
}

type Op struct {
	K    string `json:"k"` // load unload line gc scan mark
	Prog string `json:"prog,omitempty"`
	// mark: Metric.ExpireDatum(Exp, Labels...) on the M-th metric of Prog's running vm
	M      int      `json:"m,omitempty"`
	Labels []string `json:"labels,omitempty"`
	Exp    int64    `json:"exp,omitempty"`
	Src    int      `json:"src,omitempty"`
	Line   string   `json:"line,omitempty"`
	Dir    []DirEnt `json:"dir,omitempty"`
	// burst (C06, driven by harness/c06/slow.go; World.Run does not know it):
	// a line of Fill bytes 'a' (when Fill > 0) and then Lines are sent back to
	// back, without waiting for the programs in between
	Lines []string `json:"lines,omitempty"`
	Fill  int      `json:"fill,omitempty"`
	// observed
	Err string `json:"err,omitempty"` // load: "" | error text
}

type Case struct {
	Omit    bool     `json:"omit"`
	Sources []string `json:"sources"`
	Ops     []Op     `json:"ops"`
	Snaps   []Snap   `json:"snaps"`
	Note    string   `json:"note,omitempty"`
	// Prometheus samples after the last step, by prog label (when requested)
	Scrape    map[string][]string `json:"scrape,omitempty"`
	ScrapeErr string              `json:"scrape_err,omitempty"`
}

// WantScrape makes Run gather the Prometheus registry after the last step.
var WantScrape bool

var runDirs int

// Run executes ops on a fresh real Runtime and snapshots after every step.
// For histories containing "scan" ops a real directory is used.
func (w *World) Run(ops []Op, omit, counters bool) *Case {
	c := &Case{Omit: omit}
	var opts []runtime.Option
	if omit {
		opts = append(opts, runtime.OmitMetricSource())
	}
	dir := ""
	for _, o := range ops {
		if o.K == "scan" {
			// every third program directory has glob metacharacters and a space in its
			// name: a directory is a directory, whatever it is called
			runDirs++
			pat := "progs"
			if runDirs%3 == 0 {
				pat = "rules[1] {a,b}?-"
			}
			d, err := os.MkdirTemp("", pat)
			if err != nil {
				panic(err)
			}
			dir = d
			break
		}
	}
	rt, err := NewRT(w.Srcs, dir, opts...)
	if err != nil {
		panic(err)
	}
	for _, o := range ops {
		rt.Tick()
		switch o.K {
		case "load":
			if err := rt.Load(o.Prog, w.Srcs.Texts[o.Src]); err != nil {
				o.Err = err.Error()
			}
		case "unload":
			rt.Unload(o.Prog)
		case "line":
			rt.Line(o.Line)
		case "gc":
			rt.Gc()
		case "mark":
			rt.Mark(o.Prog, o.M, o.Labels, o.Exp)
		case "nop": // keeps the step numbering of a longer history
		case "scan":
			syncDir(dir, o.Dir, w.Srcs.Texts)
			for _, e := range o.Dir {
				if !e.Dir {
					rt.NoteSource(w.Srcs.Texts[e.Src])
					rt.NoteProg(e.Name)
				}
			}
			if err := rt.R.LoadAllPrograms(); err != nil {
				o.Err = err.Error()
			}
		}
		c.Ops = append(c.Ops, o)
		c.Snaps = append(c.Snaps, rt.Snapshot(counters))
	}
	if WantScrape {
		sc, err := rt.Scrape()
		c.Scrape = sc
		if err != nil {
			c.ScrapeErr = err.Error()
		}
	}
	rt.Close()
	if dir != "" {
		_ = os.RemoveAll(dir)
	}
	c.Sources = vlib.Qs(w.Srcs.Texts)
	return c
}

// syncDir makes the directory contain exactly the listing.
func syncDir(dir string, want []DirEnt, texts []string) {
	have, _ := os.ReadDir(dir)
	keep := map[string]DirEnt{}
	for _, e := range want {
		keep[e.Name] = e
	}
	for _, h := range have {
		e, ok := keep[h.Name()]
		if !ok || e.Dir != h.IsDir() {
			_ = os.RemoveAll(filepath.Join(dir, h.Name()))
		}
	}
	for _, e := range want {
		p := filepath.Join(dir, e.Name)
		if e.Dir {
			_ = os.MkdirAll(p, 0o755)
			// a program file inside the subdirectory must never be loaded
			_ = os.WriteFile(filepath.Join(p, "inner.mtail"), []byte("counter inner\n/^a/ { inner++ }\n"), 0o644)
			continue
		}
		old, err := os.ReadFile(p)
		if err == nil && string(old) == texts[e.Src] {
			continue
		}
		fi, serr := os.Stat(p)
		if err := os.WriteFile(p, []byte(texts[e.Src]), 0o644); err != nil {
			panic(err)
		}
		if e.KeepStamp && serr == nil {
			_ = os.Chtimes(p, fi.ModTime(), fi.ModTime())
		}
	}
}

// Tables returns the compile and vmstep oracle tables (as Coq terms) for every
// (program name, source) pair that the history can load and every line in it.
func (w *World) Tables(ops []Op) (ctab, vtab string) {
	type ps struct {
		p string
		s int
	}
	seen := map[ps]bool{}
	var pairs []ps
	add := func(p string, s int) {
		if !seen[ps{p, s}] {
			seen[ps{p, s}] = true
			pairs = append(pairs, ps{p, s})
		}
	}
	lines := map[int]bool{}
	for _, o := range ops {
		switch o.K {
		case "load":
			add(o.Prog, o.Src)
		case "scan":
			for _, e := range o.Dir {
				if !e.Dir {
					add(e.Name, e.Src)
				}
			}
		case "line":
			lines[w.LineID(o.Line)] = true
		}
	}
	var lids []int
	for l := range lines {
		lids = append(lids, l)
	}
	sort.Ints(lids)
	var cs, vs []string
	for _, pr := range pairs {
		ds, ok := CompileDecls(pr.p, w.Srcs.Texts[pr.s])
		r := "None"
		if ok {
			xs := make([]string, len(ds))
			for i, d := range ds {
				xs[i] = CoqDecl(d)
			}
			r = vlib.Some(vlib.List(xs))
		}
		cs = append(cs, fmt.Sprintf("(%s, %d, %s)", B(pr.p), pr.s, r))
		if !ok {
			continue
		}
		ast := w.Asts[pr.s]
		for _, l := range lids {
			es := ast.Effects(w.Lines[l])
			if len(es) == 0 {
				continue
			}
			xs := make([]string, len(es))
			for i, e := range es {
				xs[i] = CoqEffect(e)
			}
			vs = append(vs, fmt.Sprintf("(%s, %d, %d, %s)", B(pr.p), pr.s, l, vlib.List(xs)))
		}
	}
	return vlib.List(cs), vlib.List(vs)
}

// CoqOps renders load/unload/line/gc steps (step k stamps with class k).
func (w *World) CoqOps(ops []Op) string {
	xs := make([]string, len(ops))
	for i, o := range ops {
		switch o.K {
		case "load":
			xs[i] = vlib.App("OLoad", B(o.Prog), strconv.Itoa(o.Src))
		case "unload":
			xs[i] = vlib.App("OUnload", B(o.Prog))
		case "line":
			xs[i] = vlib.App("OLine", strconv.Itoa(w.LineID(o.Line)), vlib.Z(int64(i+1)))
		case "gc":
			xs[i] = vlib.App("OGc", vlib.Z(2000000))
		case "mark":
			xs[i] = vlib.App("OMark", B(o.Prog), vlib.Nat(o.M), T(o.Labels), vlib.Z(o.Exp))
		default:
			panic("CoqOps: " + o.K)
		}
	}
	return vlib.List(xs)
}

func CoqSnaps(ss []Snap) string {
	xs := make([]string, len(ss))
	for i, s := range ss {
		xs[i] = CoqSnap(s)
	}
	return vlib.List(xs)
}

// CoqLCase renders an LCase of Corr/LoaderRun.v.
func (w *World) CoqLCase(id uint64, c *Case) string {
	return WithSharing(func() string {
		ct, vt := w.Tables(c.Ops)
		return vlib.App("LCase", vlib.N(id), vlib.Bool(c.Omit), ct, vt, w.CoqOps(c.Ops), CoqSnaps(c.Snaps))
	})
}

// CoqDOps renders scan/line steps for Run/DirScan.v.
func (w *World) CoqDOps(ops []Op) string {
	xs := make([]string, len(ops))
	for i, o := range ops {
		switch o.K {
		case "scan":
			es := make([]string, len(o.Dir))
			for j, e := range o.Dir {
				if e.Dir {
					es[j] = "(" + B(e.Name) + ", Dir)"
				} else {
					es[j] = fmt.Sprintf("(%s, File %d)", B(e.Name), e.Src)
				}
			}
			xs[i] = vlib.App("DScan", vlib.List(es))
		case "line":
			xs[i] = vlib.App("DLine", strconv.Itoa(w.LineID(o.Line)), vlib.Z(int64(i+1)))
		default:
			panic("CoqDOps: " + o.K)
		}
	}
	return vlib.List(xs)
}

// CoqDCase renders a DCase of Corr/Run_C26.v.
func (w *World) CoqDCase(id uint64, c *Case) string {
	return WithSharing(func() string {
		ct, vt := w.Tables(c.Ops)
		return vlib.App("DCase", vlib.N(id), vlib.Bool(c.Omit), ct, vt, w.CoqDOps(c.Ops), CoqSnaps(c.Snaps))
	})
}
