//go:build verif

// Package progs is the small local program generator and reference
// interpreter used by the loader properties (C06 C14 C26 C25).
//
// A program is a list of metric declarations followed by rules
// `/^TOK (\S+)/ { stmts }`.  Statements only increment, set, delete or expire
// one label tuple built from the captured word, so the *attempted* effect
// sequence of a line is a pure function of (program text, line): that function
// (Effects) is written here from docs/Language.md, independently of the VM, and
// handed to the Coq model as the `vmstep` oracle.
package progs

import (
	"fmt"
	"math"
	"strings"

	"github.com/google/mtail/internal/zzverif/vlib"
)

type Decl struct {
	Kind   string // counter gauge timer histogram text
	Name   string
	Keys   []string
	Hidden bool
	Float  bool // only for gauge/timer: every assignment is a float literal
}

type Stmt struct {
	Op  string // inc set obs del expire strptime
	M   int    // declaration index
	Val int64  // set: integer literal (float literal is Val + 0.5 when the decl is Float)
	Dur string // expire: 1ms | 1h
}

type Rule struct {
	Tok   string
	Stmts []Stmt
}

type Prog struct {
	Lead   int // comment lines in front of everything (moves every declaration)
	Trail  int // comment lines at the end
	Decls  []Decl
	Rules  []Rule
	Broken bool // append a syntax error
	// Off: a valid program without instructions: 1 = every line commented out,
	// 2 = the file truncated to nothing
	Off int
	// Conv: extra declarations and rules that call conversion builtins; their
	// rules listen to tokens no generated line carries, so they only matter to
	// the compiler (type inference).  1: `cf = float($1)` on a string capture;
	// 2: `ch = float(cg)` where gauge cg is only typed by a later `cg = $1`
	// with a (\d+) capture; 3: both.
	Conv int
	// Inert (optional, C06): that many copies of InertRule at the end of the
	// program: a pattern that matches no line of the harness but is expensive
	// on a long line of 'a's.  No metric depends on it (Effects ignores it).
	Inert int
}

func (p *Prog) Clone() *Prog {
	q := &Prog{Lead: p.Lead, Trail: p.Trail, Broken: p.Broken, Off: p.Off, Conv: p.Conv, Inert: p.Inert}
	for _, d := range p.Decls {
		d.Keys = append([]string{}, d.Keys...)
		q.Decls = append(q.Decls, d)
	}
	for _, r := range p.Rules {
		r.Stmts = append([]Stmt{}, r.Stmts...)
		q.Rules = append(q.Rules, r)
	}
	return q
}

func index(d Decl) string {
	var b strings.Builder
	for range d.Keys {
		b.WriteString("[$1]")
	}
	return b.String()
}

func (p *Prog) Source() string {
	switch p.Off {
	case 2:
		return ""
	case 1:
		q := p.Clone()
		q.Off = 0
		var b strings.Builder
		for _, l := range strings.Split(strings.TrimSuffix(q.Source(), "\n"), "\n") {
			b.WriteString("# " + l + "\n")
		}
		return b.String()
	}
	var b strings.Builder
	for i := 0; i < p.Lead; i++ {
		fmt.Fprintf(&b, "# lead %d\n", i)
	}
	for _, d := range p.Decls {
		if d.Hidden {
			b.WriteString("hidden ")
		}
		b.WriteString(d.Kind + " " + d.Name)
		if len(d.Keys) > 0 {
			b.WriteString(" by " + strings.Join(d.Keys, ", "))
		}
		if d.Kind == "histogram" {
			b.WriteString(" buckets 1, 2, 4")
		}
		b.WriteString("\n")
	}
	if p.Conv&1 != 0 {
		b.WriteString("gauge cf\n")
	}
	if p.Conv&2 != 0 {
		b.WriteString("gauge cg\ngauge ch\n")
	}
	for _, r := range p.Rules {
		fmt.Fprintf(&b, "/^%s (\\S+)/ {\n", r.Tok)
		for _, s := range r.Stmts {
			d := p.Decls[s.M]
			switch s.Op {
			case "inc":
				fmt.Fprintf(&b, "  %s%s++\n", d.Name, index(d))
			case "set":
				if d.Float {
					fmt.Fprintf(&b, "  %s%s = %d.5\n", d.Name, index(d), s.Val)
				} else {
					fmt.Fprintf(&b, "  %s%s = %d\n", d.Name, index(d), s.Val)
				}
			case "obs":
				fmt.Fprintf(&b, "  %s%s = %d\n", d.Name, index(d), s.Val)
			case "sets":
				fmt.Fprintf(&b, "  %s%s = $1\n", d.Name, index(d))
			case "del":
				fmt.Fprintf(&b, "  del %s%s\n", d.Name, index(d))
			case "expire":
				fmt.Fprintf(&b, "  del %s%s after %s\n", d.Name, index(d), s.Dur)
			case "strptime":
				// the captured word never is a date: this raises a runtime error
				// on every line it sees (and abandons the rest of the line)
				b.WriteString("  strptime($1, \"2006-01-02\")\n")
			}
		}
		b.WriteString("}\n")
	}
	if p.Conv&1 != 0 {
		b.WriteString("/^k (\\S+)/ {\n  cf = float($1)\n}\n")
	}
	if p.Conv&2 != 0 {
		b.WriteString("/^k (\\S+)/ {\n  ch = float(cg)\n}\n/^j (\\d+)/ {\n  cg = $1\n}\n")
	}
	for i := 0; i < p.Inert; i++ {
		b.WriteString(InertRule)
	}
	if p.Broken {
		b.WriteString("} {\n")
	}
	for i := 0; i < p.Trail; i++ {
		fmt.Fprintf(&b, "# trail %d\n", i)
	}
	return b.String()
}

// Effect is one attempted store operation of a line.
type Effect struct {
	Op   string   `json:"op"` // inc set setf obs del expire fail
	M    int      `json:"m"`  // index into the program's metric table (v.Metrics)
	Ls   []string `json:"ls"`
	Val  int64    `json:"val,omitempty"`
	Bits uint64   `json:"bits,omitempty"`
	Dur  int64    `json:"dur,omitempty"` // ns
	Str  string   `json:"str,omitempty"` // sets: the text assigned
}

func DurNs(s string) int64 {
	switch s {
	case "1ms":
		return 1000000
	case "1h":
		return 3600 * 1000000000
	}
	panic("progs: duration " + s)
}

// Effects is the reference semantics of one line: rules in program order, each
// firing when the line is "TOK WORD" for its token; the captured word indexes
// every dimension.
func (p *Prog) Effects(line string) []Effect {
	var out []Effect
	if p.Off != 0 {
		return nil
	}
	tok, word, ok := strings.Cut(line, " ")
	if !ok || word == "" || strings.ContainsAny(word, " \t") {
		return nil
	}
	for _, r := range p.Rules {
		if r.Tok != tok {
			continue
		}
		for _, s := range r.Stmts {
			if s.Op == "strptime" {
				out = append(out, Effect{Op: "fail"})
				continue
			}
			d := p.Decls[s.M]
			ls := make([]string, len(d.Keys))
			for i := range ls {
				ls[i] = word
			}
			e := Effect{Op: s.Op, M: s.M, Ls: ls}
			switch s.Op {
			case "set":
				if d.Float {
					e.Op = "setf"
					e.Bits = math.Float64bits(float64(s.Val) + 0.5)
				} else {
					e.Val = s.Val
				}
			case "obs":
				e.Val = s.Val
			case "sets":
				e.Str = word
			case "expire":
				e.Dur = DurNs(s.Dur)
			}
			out = append(out, e)
		}
	}
	return out
}

// ---- generation ----

var Names = []string{"x", "y", "z", "w"}
var Toks = []string{"a", "b", "c", "d"}
var Words = []string{"u", "v", "w"}

type GenOpts struct {
	Names    []string
	MaxDecls int
	Hidden   bool // allow hidden declarations
	Expire   bool // allow `del ... after`
	Strptime bool // allow a strptime on the captured word (always a runtime error)
	ProgKey  bool // allow a dimension named `prog` (the label the exporter adds itself)
	Conv     bool // allow the conversion-builtin extras (Prog.Conv)
}

func genDecl(r *vlib.Rand, name string, o GenOpts) Decl {
	d := Decl{Name: name, Kind: vlib.Pick(r, []string{"counter", "counter", "counter", "gauge", "gauge", "gauge", "timer", "timer", "histogram", "histogram", "text"})}
	switch r.Intn(5) {
	case 0, 1:
	case 2, 3:
		d.Keys = []string{"k"}
	case 4:
		d.Keys = []string{"k", "j"}
	}
	if o.ProgKey && r.Chance(18) {
		d.Keys = []string{"prog"}
	}
	if d.Kind != "counter" && d.Kind != "histogram" && d.Kind != "text" && r.Chance(25) {
		d.Float = true
	}
	if o.Hidden && r.Chance(12) {
		d.Hidden = true
	}
	return d
}

// fixRules makes every statement legal for its declaration and guarantees
// every declaration is used (so its type is inferred as intended).
func (p *Prog) genRules(r *vlib.Rand, o GenOpts) {
	p.Rules = nil
	used := make([]bool, len(p.Decls))
	mk := func(m int) Stmt {
		d := p.Decls[m]
		used[m] = true
		ops := []string{"inc", "inc", "set", "del"}
		if d.Kind == "counter" {
			ops = []string{"inc", "inc", "inc", "del"}
		}
		if d.Float {
			ops = []string{"set", "set", "del"}
		}
		if d.Kind == "histogram" {
			ops = []string{"obs", "obs", "obs", "del"}
		}
		if d.Kind == "text" {
			ops = []string{"sets", "sets", "del"}
		}
		if len(d.Keys) == 0 {
			// `del` needs an indexed expression ("Cannot delete this" otherwise)
			ops = ops[:len(ops)-1]
		} else if o.Expire {
			ops = append(ops, "expire")
		}
		s := Stmt{Op: vlib.Pick(r, ops), M: m}
		switch s.Op {
		case "set", "obs":
			s.Val = int64(1 + r.Intn(9))
		case "expire":
			s.Dur = vlib.Pick(r, []string{"1ms", "1h"})
		}
		return s
	}
	nr := 1 + r.Intn(3)
	for i := 0; i < nr && len(p.Decls) > 0; i++ {
		rule := Rule{Tok: Toks[i%len(Toks)]}
		ns := 1 + r.Intn(2)
		for j := 0; j < ns; j++ {
			rule.Stmts = append(rule.Stmts, mk(r.Intn(len(p.Decls))))
		}
		if o.Strptime && r.Chance(30) {
			at := r.Intn(len(rule.Stmts) + 1)
			st := append([]Stmt{}, rule.Stmts[:at]...)
			st = append(st, Stmt{Op: "strptime"})
			rule.Stmts = append(st, rule.Stmts[at:]...)
		}
		p.Rules = append(p.Rules, rule)
	}
	// every declaration gets one defining use in the last rule's token class
	for m := range p.Decls {
		if !used[m] || p.Decls[m].Float {
			d := p.Decls[m]
			s := Stmt{Op: "inc", M: m}
			if d.Float || d.Kind != "counter" {
				s = Stmt{Op: "set", M: m, Val: int64(1 + r.Intn(9))}
			}
			if d.Kind == "histogram" {
				s.Op = "obs"
			}
			if d.Kind == "text" {
				s.Op = "sets"
			}
			p.Rules = append(p.Rules, Rule{Tok: Toks[(nr+m)%len(Toks)], Stmts: []Stmt{s}})
		}
	}
}

func Gen(r *vlib.Rand, o GenOpts) *Prog {
	if o.Names == nil {
		o.Names = Names
	}
	if o.MaxDecls == 0 {
		o.MaxDecls = 3
	}
	p := &Prog{}
	n := 1 + r.Intn(o.MaxDecls)
	perm := append([]string{}, o.Names...)
	for i := range perm {
		j := i + r.Intn(len(perm)-i)
		perm[i], perm[j] = perm[j], perm[i]
	}
	if n > len(perm) {
		n = len(perm)
	}
	for i := 0; i < n; i++ {
		p.Decls = append(p.Decls, genDecl(r, perm[i], o))
	}
	p.genRules(r, o)
	if o.Conv && r.Chance(35) {
		p.Conv = 1 + r.Intn(3)
	}
	return p
}

// Edit kinds for reload histories.
var Edits = []string{"identical", "trail-comment", "lead-comment", "kind", "type", "keys", "add-decl", "drop-decl", "rules", "syntax-error", "fresh"}

// Edit returns an edited version of p. The declaration touched (if any) is
// returned for distribution accounting.
func Edit(r *vlib.Rand, p *Prog, kind string, o GenOpts) *Prog {
	q := p.Clone()
	q.Broken = false
	pick := func() int { return r.Intn(len(q.Decls)) }
	switch kind {
	case "identical":
		q.Broken = p.Broken
	case "trail-comment":
		q.Trail++
	case "lead-comment":
		q.Lead++
	case "kind":
		i := pick()
		d := &q.Decls[i]
		if d.Kind == "counter" {
			d.Kind = "gauge"
		} else {
			d.Kind = "counter"
			d.Float = false
		}
		q.fixStmts(r)
	case "type":
		i := pick()
		d := &q.Decls[i]
		if d.Kind == "counter" || d.Kind == "histogram" || d.Kind == "text" {
			d.Kind = "gauge" // a counter cannot take a float literal in this grammar
		}
		d.Float = !d.Float
		q.fixStmts(r)
	case "keys":
		i := pick()
		d := &q.Decls[i]
		switch len(d.Keys) {
		case 0:
			d.Keys = []string{"k"}
		case 1:
			if r.Bool() {
				d.Keys = nil
			} else {
				d.Keys = []string{"j"}
			}
		default:
			d.Keys = []string{"k"}
		}
	case "add-decl", "add-last", "add-first":
		front := r.Bool()
		if kind == "add-last" {
			front = false
		}
		if kind == "add-first" {
			front = true
		}
		used := map[string]bool{}
		for _, d := range q.Decls {
			used[d.Name] = true
		}
		names := o.Names
		if names == nil {
			names = Names
		}
		for _, n := range names {
			if !used[n] {
				nd := genDecl(r, n, o)
				m := len(q.Decls)
				if front {
					// in front: every later declaration moves one line down
					q.Decls = append([]Decl{nd}, q.Decls...)
					for ri := range q.Rules {
						for si := range q.Rules[ri].Stmts {
							q.Rules[ri].Stmts[si].M++
						}
					}
					m = 0
				} else {
					q.Decls = append(q.Decls, nd)
				}
				s := Stmt{Op: "inc", M: m}
				if nd.Kind != "counter" {
					s = Stmt{Op: "set", M: m, Val: 3}
				}
				if nd.Kind == "histogram" {
					s.Op = "obs"
				}
				if nd.Kind == "text" {
					s.Op = "sets"
				}
				q.Rules = append(q.Rules, Rule{Tok: vlib.Pick(r, Toks), Stmts: []Stmt{s}})
				break
			}
		}
	case "drop-decl":
		if len(q.Decls) > 1 {
			i := pick()
			q.Decls = append(q.Decls[:i], q.Decls[i+1:]...)
			var rules []Rule
			for _, ru := range q.Rules {
				var st []Stmt
				for _, s := range ru.Stmts {
					if s.M == i {
						continue
					}
					if s.M > i {
						s.M--
					}
					st = append(st, s)
				}
				if len(st) > 0 {
					rules = append(rules, Rule{Tok: ru.Tok, Stmts: st})
				}
			}
			q.Rules = rules
		}
	case "rules":
		q.genRules(r, o)
	case "same-length":
		// another text of exactly the same byte length: one rule listens to
		// another token
		if len(q.Rules) > 0 {
			i := r.Intn(len(q.Rules))
			for {
				t := vlib.Pick(r, Toks)
				if t != q.Rules[i].Tok {
					q.Rules[i].Tok = t
					break
				}
			}
		}
	case "comment-out":
		q.Off = 1
	case "truncate":
		q.Off = 2
	case "switch-on":
		q.Off = 0
	case "syntax-error":
		q.Broken = true
	case "fresh":
		return Gen(r, o)
	}
	return q
}

// fixStmts rewrites statements that became illegal after a kind/type edit.
func (p *Prog) fixStmts(r *vlib.Rand) {
	for ri := range p.Rules {
		for si := range p.Rules[ri].Stmts {
			s := &p.Rules[ri].Stmts[si]
			if s.Op == "strptime" {
				continue
			}
			d := p.Decls[s.M]
			if d.Kind == "histogram" {
				if s.Op == "inc" || s.Op == "set" || s.Op == "sets" {
					s.Op, s.Val = "obs", int64(1+r.Intn(9))
				}
				continue
			}
			if d.Kind == "text" {
				if s.Op == "inc" || s.Op == "set" || s.Op == "obs" {
					s.Op = "sets"
				}
				continue
			}
			if s.Op == "obs" || s.Op == "sets" {
				s.Op, s.Val = "set", int64(1+r.Intn(9))
			}
			if d.Float && s.Op == "inc" {
				s.Op, s.Val = "set", int64(1+r.Intn(9))
			}
			if d.Kind == "counter" && s.Op == "set" {
				s.Op = "inc"
			}
		}
	}
	// a Float declaration needs at least one float assignment to be typed Float
	for m, d := range p.Decls {
		if !d.Float {
			continue
		}
		has := false
		for _, ru := range p.Rules {
			for _, s := range ru.Stmts {
				if s.M == m && s.Op == "set" {
					has = true
				}
			}
		}
		if !has {
			p.Rules = append(p.Rules, Rule{Tok: vlib.Pick(r, Toks), Stmts: []Stmt{{Op: "set", M: m, Val: 2}}})
		}
	}
}

// Lines returns a small line alphabet hitting every token with several words,
// plus lines that match nothing.
func RandLine(r *vlib.Rand) string {
	if r.Chance(8) {
		return vlib.Pick(r, []string{"zzz", "a", "q u"})
	}
	return vlib.Pick(r, Toks) + " " + vlib.Pick(r, Words)
}
