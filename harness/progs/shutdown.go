//go:build verif

package progs

// Driving the END of a run (used by c25): lines pushed back to back without
// barrier lines, the close of the input channel, and the wait for the
// Runtime's wait group.  Add-only: nothing here changes Line / Close.

import (
	"context"
	"time"

	"github.com/google/mtail/internal/logline"
)

// Push sends one line and returns as soon as the fan-out loop has taken it
// (no barrier lines: the VMs may still be busy).  false: the loader did not
// take the line within d.
func (rt *RT) Push(s string, d time.Duration) bool {
	t := time.NewTimer(d)
	defer t.Stop()
	select {
	case rt.lines <- logline.New(context.Background(), "log", s):
		rt.Sent++
		return true
	case <-t.C:
		return false
	}
}

// CloseInput is the tailer's close of the lines channel.
func (rt *RT) CloseInput() { close(rt.lines) }

// WaitStopped waits for the Runtime's wait group (the fan-out loop and every
// VM have returned) and then stops the exporter; false: not within d.
func (rt *RT) WaitStopped(d time.Duration) bool {
	done := make(chan struct{})
	go func() { rt.wg.Wait(); close(done) }()
	t := time.NewTimer(d)
	defer t.Stop()
	select {
	case <-done:
	case <-t.C:
		return false
	}
	if rt.exp != nil {
		rt.exp.Stop()
	}
	rt.expStop()
	return true
}
