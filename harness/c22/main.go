//go:build verif

// c22: every export format reports each label set's own value.
//
// A random store (>= 2 label sets with distinct values per metric, every
// kind/type, random prefixes/hostnames, non-finite floats) is exported through
// the real HandleVarz, HandleGraphite, HandleJSON handlers and the real push
// path writeSocketMetrics with the graphite/statsd/collectd formatters.  Each
// write is recorded as one record.
// Correspondence: Export/Formats.v must produce the same multisets of records
// and the same JSON tree (object fields in written order).
// Oracle (property text, independent of the model): for each label set of each
// metric there is exactly one record addressed to it (path computed from the
// property's description of the format) and it carries that label set's own
// ValueString and TimeString; graphite histograms carry the label set's own
// bucket counts and count; /json answers 200 and decodes to the same names,
// keys, label sets and values.
package main

import (
	"bytes"
	"context"
	"encoding/json"
	"errors"
	"fmt"
	"io"
	"math"
	"net/http"
	"net/http/httptest"
	"os"
	"sort"
	"strconv"
	"strings"
	"time"

	"github.com/google/mtail/internal/exporter"
	"github.com/google/mtail/internal/metrics"
	"github.com/google/mtail/internal/metrics/datum"
	"github.com/google/mtail/internal/zzverif/vlib"
)

func hx(f float64) string { return fmt.Sprintf("%016x", math.Float64bits(f)) }
func unhx(s string) float64 {
	u, _ := strconv.ParseUint(s, 16, 64)
	return math.Float64frombits(u)
}

// ---------------------------------------------------------------- store spec

type lsSpec struct {
	Vals   []string `json:"vals"`
	I      int64    `json:"i,omitempty"`
	F      string   `json:"f,omitempty"`
	S      string   `json:"s,omitempty"`
	Obs    []string `json:"obs,omitempty"`
	T      int64    `json:"t"`
	Expiry int64    `json:"expiry,omitempty"`
}
type mSpec struct {
	Name   string   `json:"name"`
	Prog   string   `json:"prog"`
	Kind   string   `json:"kind"`
	Type   string   `json:"type"`
	Hidden bool     `json:"hidden,omitempty"`
	Limit  int      `json:"limit,omitempty"`
	Keys   []string `json:"keys"`
	Source string   `json:"source"`
	Bounds []string `json:"bounds,omitempty"`
	Ls     []lsSpec `json:"ls"`
	// Reload: a key-less metric built the way a program reload builds it - the
	// datum is preallocated at construction (codegen: scalar counters start at 0
	// at time 0, scalar histograms get their datum), the metric is added, updated,
	// and then the SAME declaration (again with its preallocated datum) is added
	// a second time; Store.Add hands the old datum over to the new metric.
	Reload bool `json:"reload,omitempty"`
}
type storeSpec struct {
	Kind     string  `json:"kind"`
	Host     string  `json:"host"`
	Omit     bool    `json:"omit_prog"`
	Interval int64   `json:"interval_s"`
	GPrefix  string  `json:"graphite_prefix"`
	SPrefix  string  `json:"statsd_prefix"`
	CPrefix  string  `json:"collectd_prefix"`
	Metrics  []mSpec `json:"metrics"`
	// Disturb > 0: before the exports that are judged, the same exporter serves
	// requests that go wrong - cancelled after Disturb metrics, and written to a
	// client that fails at its Disturb-th write - on every handler and on the push
	// writer.  What a failed export leaves behind must not show in the next one.
	Disturb int `json:"disturb,omitempty"`
	// RealPush: the store is also pushed through Exporter.PushMetrics to real
	// collectd / graphite / statsd listeners on the loopback
	RealPush bool `json:"real_push,omitempty"`
	// PromFirst: a Prometheus collection of the same exporter precedes the judged exports
	PromFirst bool `json:"prom_first,omitempty"`
}

// pollCtx is a request context that reports cancellation from its k-th poll on.
type pollCtx struct {
	context.Context
	n, k int
}

var closedCh = func() chan struct{} { c := make(chan struct{}); close(c); return c }()

func (c *pollCtx) Done() <-chan struct{} {
	c.n++
	if c.n > c.k {
		return closedCh
	}
	return nil
}
func (c *pollCtx) Err() error {
	if c.n > c.k {
		return context.Canceled
	}
	return nil
}

// failRW accepts k writes and fails afterwards.
type failRW struct {
	hdr  http.Header
	k, n int
}

func (c *failRW) Header() http.Header {
	if c.hdr == nil {
		c.hdr = http.Header{}
	}
	return c.hdr
}
func (c *failRW) WriteHeader(int) {}
func (c *failRW) Write(b []byte) (int, error) {
	c.n++
	if c.n > c.k {
		return 0, errors.New("c22: client went away")
	}
	return len(b), nil
}

// disturb: odd d = requests cancelled after (d+1)/2 metrics; even d = clients and
// push connections that fail at their (d/2)-th write.  One kind per store, so
// that a later well-behaved request of the other kind cannot tidy up after it.
func disturb(e *exporter.Exporter, d int) {
	k := (d + 1) / 2
	for _, h := range []func(http.ResponseWriter, *http.Request){e.HandleVarz, e.HandleGraphite, e.HandleJSON} {
		if d%2 == 1 {
			h(&chunkRW{}, httptest.NewRequest("GET", "/x", nil).WithContext(&pollCtx{Context: context.Background(), k: k}))
		} else {
			h(&failRW{k: k}, httptest.NewRequest("GET", "/x", nil))
		}
	}
	if d%2 == 0 {
		for _, f := range []string{"graphite", "statsd", "collectd"} {
			_ = exporter.VerifC22Push(e, &failRW{k: k}, f)
		}
	}
}

var kindOf = map[string]metrics.Kind{"counter": metrics.Counter, "gauge": metrics.Gauge, "timer": metrics.Timer,
	"text": metrics.Text, "histogram": metrics.Histogram}
var typeOf = map[string]metrics.Type{"int": metrics.Int, "float": metrics.Float, "string": metrics.String, "buckets": metrics.Buckets}

func rangesOf(bounds []float64) []datum.Range {
	var rs []datum.Range
	if len(bounds) == 0 {
		return rs
	}
	if bounds[0] > 0 {
		rs = append(rs, datum.Range{Min: 0, Max: bounds[0]})
	}
	for i := 0; i+1 < len(bounds); i++ {
		rs = append(rs, datum.Range{Min: bounds[i], Max: bounds[i+1]})
	}
	return append(rs, datum.Range{Min: bounds[len(bounds)-1], Max: math.Inf(1)})
}

type builtLS struct {
	spec  lsSpec
	vals  []string
	datum datum.Datum
}
type builtMetric struct {
	spec mSpec
	m    *metrics.Metric
	ls   []builtLS
}

func build(sp storeSpec) (*metrics.Store, []builtMetric) {
	st := metrics.NewStore()
	var out []builtMetric
	for _, ms := range sp.Metrics {
		newMetric := func(prealloc bool) *metrics.Metric {
			m := metrics.NewMetric(vlib.UnQ(ms.Name), vlib.UnQ(ms.Prog), kindOf[ms.Kind], typeOf[ms.Type], vlib.UnQs(ms.Keys)...)
			m.SetSource(vlib.UnQ(ms.Source))
			m.Hidden, m.Limit = ms.Hidden, ms.Limit
			if ms.Type == "buckets" {
				bs := make([]float64, len(ms.Bounds))
				for i, b := range ms.Bounds {
					bs[i] = unhx(b)
				}
				m.Buckets = rangesOf(bs)
			}
			if prealloc {
				// what codegen does for a scalar counter / histogram
				d, err := m.GetDatum()
				if err != nil {
					panic(err)
				}
				switch ms.Type {
				case "int":
					datum.SetInt(d, 0, time.Unix(0, 0))
				case "float":
					datum.SetFloat(d, 0, time.Unix(0, 0))
				}
			}
			return m
		}
		set := func(d datum.Datum, l lsSpec) {
			ts := time.Unix(l.T/1e9, l.T%1e9)
			switch ms.Type {
			case "int":
				datum.SetInt(d, l.I, ts)
			case "float":
				datum.SetFloat(d, unhx(l.F), ts)
			case "string":
				datum.SetString(d, vlib.UnQ(l.S), ts)
			case "buckets":
				for _, o := range l.Obs {
					datum.Observe(d, unhx(o), ts)
				}
			}
		}
		if ms.Reload {
			m1 := newMetric(true)
			if err := st.Add(m1); err != nil {
				panic(err)
			}
			d, err := m1.GetDatum()
			if err != nil {
				panic(err)
			}
			l := ms.Ls[0]
			set(d, l)
			m2 := newMetric(true)
			if err := st.Add(m2); err != nil { // the reload: m1's datum moves to m2
				panic(err)
			}
			out = append(out, builtMetric{spec: ms, m: m2, ls: []builtLS{{l, []string{}, d}}})
			continue
		}
		m := newMetric(false)
		bm := builtMetric{spec: ms, m: m}
		for _, l := range ms.Ls {
			vals := vlib.UnQs(l.Vals)
			d, err := m.GetDatum(vals...)
			if err != nil {
				panic(err)
			}
			set(d, l)
			if l.Expiry != 0 {
				if err := m.ExpireDatum(time.Duration(l.Expiry), vals...); err != nil {
					panic(err)
				}
			}
			bm.ls = append(bm.ls, builtLS{l, vals, d})
		}
		if err := st.Add(m); err != nil {
			panic(err)
		}
		out = append(out, bm)
	}
	return st, out
}

// ---------------------------------------------------------------- exporting

type chunkRW struct {
	hdr    http.Header
	code   int
	chunks []string
}

func (c *chunkRW) Header() http.Header {
	if c.hdr == nil {
		c.hdr = http.Header{}
	}
	return c.hdr
}
func (c *chunkRW) WriteHeader(code int) { c.code = code }
func (c *chunkRW) Write(b []byte) (int, error) {
	if c.code == 0 {
		c.code = 200
	}
	c.chunks = append(c.chunks, string(b))
	return len(b), nil
}

type chunkW struct{ chunks []string }

func (c *chunkW) Write(b []byte) (int, error) {
	c.chunks = append(c.chunks, string(b))
	return len(b), nil
}

type outputs struct {
	Varz, GraphiteHTTP, GraphitePush, Statsd, Collectd []string // records (graphite: lines)
	JSONCode                                           int
	JSONBody                                           string
}

func lines(chunks []string) []string {
	var out []string
	for _, c := range chunks {
		for _, l := range strings.SplitAfter(c, "\n") {
			if l != "" {
				out = append(out, l)
			}
		}
	}
	return out
}

func export(st *metrics.Store, sp storeSpec) outputs {
	exporter.VerifC22SetPrefixes(vlib.UnQ(sp.GPrefix), vlib.UnQ(sp.SPrefix), vlib.UnQ(sp.CPrefix))
	opts := []exporter.Option{exporter.Hostname(vlib.UnQ(sp.Host)), exporter.DisableExport(),
		exporter.PushInterval(time.Duration(sp.Interval) * time.Second)}
	if sp.Omit {
		opts = append(opts, exporter.OmitProgLabel())
	}
	e, err := exporter.New(context.Background(), st, opts...)
	if err != nil {
		panic(err)
	}
	if sp.PromFirst {
		// the store is scraped in the Prometheus format first, as a real mtail is all
		// the time: what that collection does to shared label maps must not show in
		// the other formats
		_ = e.Write(io.Discard)
	}
	if sp.Disturb > 0 {
		disturb(e, sp.Disturb)
	}
	var o outputs
	req := httptest.NewRequest("GET", "/x", nil)
	w := &chunkRW{}
	e.HandleVarz(w, req)
	o.Varz = w.chunks
	w = &chunkRW{}
	e.HandleGraphite(w, req)
	o.GraphiteHTTP = lines(w.chunks)
	for _, f := range []string{"graphite", "statsd", "collectd"} {
		cw := &chunkW{}
		if err := exporter.VerifC22Push(e, cw, f); err != nil {
			panic(err)
		}
		switch f {
		case "graphite":
			o.GraphitePush = lines(cw.chunks)
		case "statsd":
			o.Statsd = cw.chunks
		case "collectd":
			o.Collectd = cw.chunks
		}
	}
	w = &chunkRW{}
	e.HandleJSON(w, req)
	o.JSONCode, o.JSONBody = w.code, strings.Join(w.chunks, "")
	return o
}

// ---------------------------------------------------------------- JSON tree (field order kept)

type jnode struct {
	kind string // null bool num str arr obj
	b    bool
	s    string
	arr  []jnode
	keys []string
	vals []jnode
}

func parseJSON(dec *json.Decoder) (jnode, error) {
	t, err := dec.Token()
	if err != nil {
		return jnode{}, err
	}
	switch v := t.(type) {
	case json.Delim:
		if v == '[' {
			n := jnode{kind: "arr"}
			for dec.More() {
				c, err := parseJSON(dec)
				if err != nil {
					return n, err
				}
				n.arr = append(n.arr, c)
			}
			_, err := dec.Token()
			return n, err
		}
		n := jnode{kind: "obj"}
		for dec.More() {
			k, err := dec.Token()
			if err != nil {
				return n, err
			}
			c, err := parseJSON(dec)
			if err != nil {
				return n, err
			}
			n.keys, n.vals = append(n.keys, k.(string)), append(n.vals, c)
		}
		_, err := dec.Token()
		return n, err
	case bool:
		return jnode{kind: "bool", b: v}, nil
	case json.Number:
		return jnode{kind: "num", s: v.String()}, nil
	case string:
		return jnode{kind: "str", s: v}, nil
	case nil:
		return jnode{kind: "null"}, nil
	}
	return jnode{}, fmt.Errorf("token %v", t)
}

func (n jnode) coq() string {
	switch n.kind {
	case "null":
		return "JNull"
	case "bool":
		return vlib.App("JBool", vlib.Bool(n.b))
	case "num":
		return vlib.App("JNum", vlib.Bytes(n.s))
	case "str":
		return vlib.App("JStr", vlib.Bytes(n.s))
	case "arr":
		xs := make([]string, len(n.arr))
		for i, c := range n.arr {
			xs[i] = c.coq()
		}
		return vlib.App("JArr", vlib.List(xs))
	}
	xs := make([]string, len(n.keys))
	for i := range n.keys {
		xs[i] = fmt.Sprintf("(%s, %s)", vlib.Bytes(n.keys[i]), n.vals[i].coq())
	}
	return vlib.App("JObj", vlib.List(xs))
}

func (n jnode) get(k string) (jnode, bool) {
	for i, x := range n.keys {
		if x == k {
			return n.vals[i], true
		}
	}
	return jnode{}, false
}

// ---------------------------------------------------------------- Coq terms

func fval(f float64) string {
	js := "None"
	if b, err := json.Marshal(f); err == nil {
		js = vlib.Some(vlib.Bytes(string(b)))
	}
	return vlib.App("Build_fval", vlib.N(math.Float64bits(f)), vlib.Bytes(fmt.Sprintf("%g", f)), js)
}

var kindCoq = map[string]string{"counter": "KCounter", "gauge": "KGauge", "timer": "KTimer", "text": "KText", "histogram": "KHistogram"}
var typeCoq = map[string]string{"int": "TInt", "float": "TFloat", "string": "TString", "buckets": "TBuckets"}

func coqDatum(d datum.Datum) string {
	switch x := d.(type) {
	case *datum.Int:
		return vlib.App("VInt", vlib.Z(x.Get()))
	case *datum.Float:
		return vlib.App("VFloat", fval(x.Get()))
	case *datum.String:
		return vlib.App("VStr", vlib.Bytes(x.Get()))
	case *datum.Buckets:
		x.RLock()
		defer x.RUnlock()
		bs := make([]string, len(x.Buckets))
		for i, b := range x.Buckets {
			bs[i] = vlib.App("Build_bucket", fval(b.Range.Min), fval(b.Range.Max), vlib.N(b.Count))
		}
		return vlib.App("VBuckets", vlib.List(bs), vlib.N(x.Count), fval(x.Sum))
	}
	panic("datum")
}

func coqStore(built []builtMetric) string {
	ms := make([]string, len(built))
	for i, bm := range built {
		m := bm.m
		ls := make([]string, len(bm.ls))
		for j, l := range bm.ls {
			ls[j] = vlib.App("Build_lset", vlib.Tuple(l.vals), coqDatum(l.datum),
				vlib.Z(l.datum.TimeUTC().UnixNano()), vlib.Z(l.spec.Expiry))
		}
		rs := make([]string, len(m.Buckets))
		for j, r := range m.Buckets {
			rs[j] = fmt.Sprintf("(%s, %s)", fval(r.Min), fval(r.Max))
		}
		ms[i] = vlib.App("Build_metric", vlib.Bytes(m.Name), vlib.Bytes(m.Program), kindCoq[bm.spec.Kind], typeCoq[bm.spec.Type],
			vlib.Bool(m.Hidden), vlib.Tuple(m.Keys), vlib.List(ls), vlib.Bytes(m.Source), vlib.List(rs), vlib.Z(int64(m.Limit)))
	}
	return vlib.List(ms)
}

func coqCfg(sp storeSpec) string {
	return vlib.App("Build_cfg", vlib.Bytes(vlib.UnQ(sp.Host)), vlib.Bool(sp.Omit), vlib.Z(sp.Interval),
		vlib.Bytes(vlib.UnQ(sp.GPrefix)), vlib.Bytes(vlib.UnQ(sp.SPrefix)), vlib.Bytes(vlib.UnQ(sp.CPrefix)))
}
func coqRecords(rs []string) string {
	xs := make([]string, len(rs))
	for i, r := range rs {
		xs[i] = vlib.Bytes(r)
	}
	return vlib.List(xs)
}

// ---------------------------------------------------------------- oracle

type viol struct{ class, what string }

// pathOf is the property's description of the flattened name: metric name then
// key/value pairs in key order, separators inside keys/values replaced by "_".
func pathOf(name string, keys, vals []string, ksep, sep string) string {
	type kv struct{ k, v string }
	m := map[string]string{}
	for i, k := range keys {
		m[k] = vals[i]
	}
	var ks []string
	for k := range m {
		ks = append(ks, k)
	}
	sort.Strings(ks)
	clean := func(s string) string {
		return strings.ReplaceAll(strings.ReplaceAll(s, ksep, "_"), sep, "_")
	}
	r := name
	for _, k := range ks {
		r += sep + clean(k) + ksep + clean(m[k])
	}
	return r
}

func timeString(d datum.Datum) string {
	return strconv.FormatInt(d.TimeUTC().UnixNano()/1e9, 10)
}

func check(sp storeSpec, built []builtMetric, o outputs) []viol {
	var vs []viol
	add := func(c, w string) { vs = append(vs, viol{c, w}) }
	host := vlib.UnQ(sp.Host)
	count := func(recs []string, pred func(string) bool) (n int, last string) {
		for _, r := range recs {
			if pred(r) {
				n++
				last = r
			}
		}
		return
	}
	total := map[string]int{}
	anyDot, anyDash := false, false // label values outside the property's domain somewhere in the store (a.b / a_b share a path)
	for _, bm := range built {
		m := bm.m
		isText := bm.spec.Kind == "text"
		isHist := bm.spec.Kind == "histogram" && bm.spec.Type == "buckets"
		// The property quantifies over label values free of the target format's
		// separators: with "." (graphite, statsd) or "-" (collectd) inside a value
		// the replacement by "_" can merge two label sets' paths ("a.b" / "a_b").
		// Such metrics are still compared with the model, record by record; the
		// per-label-set oracle is evaluated only inside the property's domain.
		hasDot, hasDash := false, false
		for _, l := range bm.ls {
			for _, v := range l.vals {
				hasDot = hasDot || strings.Contains(v, ".")
				hasDash = hasDash || strings.Contains(v, "-")
			}
		}
		anyDot, anyDash = anyDot || hasDot, anyDash || hasDash
		for _, l := range bm.ls {
			where := fmt.Sprintf("metric %q prog %q labels %q", m.Name, m.Program, l.vals)
			val, ts := l.datum.ValueString(), timeString(l.datum)
			// graphite (handler: every metric; push: not text)
			gp := vlib.UnQ(sp.GPrefix) + m.Program + "." + pathOf(m.Name, m.Keys, l.vals, ".", ".")
			for _, g := range []struct {
				name string
				recs []string
				on   bool
			}{{"graphite-http", o.GraphiteHTTP, true}, {"graphite-push", o.GraphitePush, !isText}} {
				if !g.on {
					continue
				}
				if hasDot {
					total[g.name]++
					if isHist {
						total[g.name] += len(datum.GetBuckets(l.datum).Buckets) + 1
					}
					continue
				}
				n, rec := count(g.recs, func(r string) bool { return strings.HasPrefix(r, gp+" ") })
				want := gp + " " + val + " " + ts + "\n"
				if n != 1 {
					add(g.name+"-record-count", fmt.Sprintf("%s: %d value lines for path %q", where, n, gp))
				} else if rec != want {
					add(g.name+"-wrong-value", fmt.Sprintf("%s: line %q, expected %q", where, rec, want))
				}
				total[g.name]++
				if isHist {
					b := datum.GetBuckets(l.datum)
					b.RLock()
					for _, bc := range b.Buckets {
						bin := "inf"
						if !math.IsInf(bc.Range.Max, 1) {
							bin = fmt.Sprintf("%v", bc.Range.Max)
						}
						wantb := fmt.Sprintf("%s.bin_%s %d %s\n", gp, bin, bc.Count, ts)
						if n, _ := count(g.recs, func(r string) bool { return r == wantb }); n != 1 {
							add(g.name+"-histogram-other-label-sets-buckets", fmt.Sprintf("%s: expected exactly one line %q (the label set's own bucket count), found %d", where, wantb, n))
						}
						total[g.name]++
					}
					wantc := fmt.Sprintf("%s.count %d %s\n", gp, b.Count, ts)
					if n, _ := count(g.recs, func(r string) bool { return r == wantc }); n != 1 {
						add(g.name+"-histogram-other-label-sets-buckets", fmt.Sprintf("%s: expected exactly one line %q (the label set's own count), found %d", where, wantc, n))
					}
					total[g.name]++
					b.RUnlock()
				}
			}
			// varz: every metric
			{
				var kv []string
				mm := map[string]string{}
				for i, k := range m.Keys {
					mm[k] = l.vals[i]
				}
				for k, v := range mm {
					kv = append(kv, k+"="+v)
				}
				sort.Strings(kv)
				if !sp.Omit {
					kv = append(kv, "prog="+m.Program)
				}
				kv = append(kv, "instance="+host)
				want := m.Name + "{" + strings.Join(kv, ",") + "} " + val + "\n"
				if n, _ := count(o.Varz, func(r string) bool { return r == want }); n != 1 {
					add("varz-record", fmt.Sprintf("%s: expected exactly one record %q, found %d", where, want, n))
				}
				total["varz"]++
			}
			if isText {
				continue
			}
			// statsd (counters, gauges, timers): prefix prog.path:value|type
			if bm.spec.Kind != "histogram" {
				t := map[string]string{"counter": "c", "gauge": "g", "timer": "ms"}[bm.spec.Kind]
				want := vlib.UnQ(sp.SPrefix) + m.Program + "." + pathOf(m.Name, m.Keys, l.vals, ".", ".") + ":" + val + "|" + t
				if n, _ := count(o.Statsd, func(r string) bool { return r == want }); n != 1 && !hasDot {
					add("statsd-record", fmt.Sprintf("%s: expected exactly one record %q, found %d", where, want, n))
				}
				typ := map[string]string{"counter": "counter", "gauge": "gauge", "timer": "gauge"}[bm.spec.Kind]
				wantc := fmt.Sprintf("PUTVAL \"%s/%smtail-%s/%s-%s\" interval=%d %s:%s\n", host, vlib.UnQ(sp.CPrefix), m.Program, typ,
					pathOf(m.Name, m.Keys, l.vals, "-", "-"), sp.Interval, ts, val)
				if n, _ := count(o.Collectd, func(r string) bool { return r == wantc }); n != 1 && !hasDash {
					add("collectd-record", fmt.Sprintf("%s: expected exactly one record %q, found %d", where, wantc, n))
				}
			}
			total["statsd"]++
			total["collectd"]++
		}
	}
	// no two records of one output may be addressed to the same series (a label
	// set exported twice, e.g. after a reload that duplicated it in the store)
	ident := func(r string, cut string) string {
		if i := strings.Index(r, cut); i >= 0 {
			return r[:i]
		}
		return r
	}
	for name, x := range map[string]struct {
		recs []string
		cut  string
	}{"varz": {o.Varz, "} "}, "statsd": {o.Statsd, ":"}, "collectd": {o.Collectd, "\" interval="},
		"graphite-http": {o.GraphiteHTTP, " "}, "graphite-push": {o.GraphitePush, " "}} {
		if (anyDot && name != "varz" && name != "collectd") || (anyDash && name == "collectd") {
			continue
		}
		seen := map[string]string{}
		for _, r := range x.recs {
			id := ident(r, x.cut)
			if prev, ok := seen[id]; ok {
				add("duplicate-records-for-one-label-set", fmt.Sprintf("%s: two records for %q: %q and %q", name, id, prev, r))
				break
			}
			seen[id] = r
		}
	}
	for name, recs := range map[string][]string{"graphite-http": o.GraphiteHTTP, "graphite-push": o.GraphitePush, "varz": o.Varz, "statsd": o.Statsd, "collectd": o.Collectd} {
		if len(recs) != total[name] {
			add(name+"-extra-or-missing-records", fmt.Sprintf("%d records written, %d label sets/lines expected", len(recs), total[name]))
		}
	}
	// JSON
	nonfinite := false
	for _, bm := range built {
		for _, l := range bm.ls {
			switch x := l.datum.(type) {
			case *datum.Float:
				nonfinite = nonfinite || math.IsInf(x.Get(), 0) || math.IsNaN(x.Get())
			case *datum.Buckets:
				nonfinite = nonfinite || math.IsInf(x.GetSum(), 0) || math.IsNaN(x.GetSum())
			}
		}
	}
	if o.JSONCode != 200 {
		cl := "json-error-status"
		if nonfinite {
			cl = "json-500-on-non-finite-float"
		}
		add(cl, fmt.Sprintf("/json answered %d: %s", o.JSONCode, strings.TrimSpace(o.JSONBody)))
		return vs
	}
	var dec []struct {
		Name, Program string
		Keys          []string
		LabelValues   []struct {
			Labels []string
			Value  map[string]json.RawMessage
		}
	}
	if err := json.Unmarshal([]byte(o.JSONBody), &dec); err != nil {
		add("json-not-decodable", err.Error())
		return vs
	}
	if len(dec) != len(built) {
		add("json-metric-count", fmt.Sprintf("%d metrics in /json, %d in the store", len(dec), len(built)))
	}
	for _, bm := range built {
		found := 0
		for _, jm := range dec {
			if jm.Name != bm.m.Name || jm.Program != bm.m.Program {
				continue
			}
			found++
			if fmt.Sprintf("%q", jm.Keys) != fmt.Sprintf("%q", bm.m.Keys) && !(len(jm.Keys) == 0 && len(bm.m.Keys) == 0) {
				add("json-keys", fmt.Sprintf("metric %q: keys %q vs %q", bm.m.Name, jm.Keys, bm.m.Keys))
			}
			if len(jm.LabelValues) != len(bm.ls) {
				add("json-label-sets", fmt.Sprintf("metric %q: %d label sets in /json, %d in the store", bm.m.Name, len(jm.LabelValues), len(bm.ls)))
				continue
			}
			for i, l := range bm.ls {
				jl := jm.LabelValues[i]
				if fmt.Sprintf("%q", jl.Labels) != fmt.Sprintf("%q", l.vals) && !(len(jl.Labels) == 0 && len(l.vals) == 0) {
					add("json-labels", fmt.Sprintf("metric %q: labels %q vs %q", bm.m.Name, jl.Labels, l.vals))
				}
				var wantV string
				switch x := l.datum.(type) {
				case *datum.Int:
					wantV = strconv.FormatInt(x.Get(), 10)
				case *datum.Float:
					var f float64
					if json.Unmarshal(jl.Value["Value"], &f) != nil || math.Float64bits(f) != math.Float64bits(x.Get()) {
						add("json-value", fmt.Sprintf("metric %q labels %q: float %v exported as %s", bm.m.Name, l.vals, x.Get(), jl.Value["Value"]))
					}
					continue
				case *datum.String:
					b, _ := json.Marshal(x.Get())
					wantV = string(b)
				case *datum.Buckets:
					wantV = strconv.FormatUint(x.GetCount(), 10)
					if string(jl.Value["Count"]) != wantV {
						add("json-value", fmt.Sprintf("metric %q labels %q: count %s exported as %s", bm.m.Name, l.vals, wantV, jl.Value["Count"]))
					}
					continue
				}
				if string(jl.Value["Value"]) != wantV {
					add("json-value", fmt.Sprintf("metric %q labels %q: value %s exported as %s", bm.m.Name, l.vals, wantV, jl.Value["Value"]))
				}
				var tt int64
				if json.Unmarshal(jl.Value["Time"], &tt) != nil || tt != l.datum.TimeUTC().UnixNano() {
					add("json-time", fmt.Sprintf("metric %q labels %q: time %s", bm.m.Name, l.vals, jl.Value["Time"]))
				}
			}
		}
		if found != 1 {
			add("json-metric-missing-or-duplicated", fmt.Sprintf("metric %q prog %q appears %d times", bm.m.Name, bm.m.Program, found))
		}
	}
	return vs
}

// ---------------------------------------------------------------- generator

var namePool = []string{"foo", "bar_baz", "lines-total", "x", "m1", "resp_time", "UPPER", "q9", "cpu%", "m%s", "pct%%", "n%d"}
var keyPool = []string{"a", "b", "code", "host", "k_1", "zone"}
var valPool = []string{"x", "200", "500", "ok1", "ok2", "web01", "GET", "a_b", "Z", "7", "eu", "us", "/a%20b", "100%", "%d", "%s", "%%", "%v%v", "x%", "%!", "50%25"}
var sepVals = []string{"a.b", "a-b", "v=1", "c,d", "1.5", "x-y.z"} // separator characters of some format
var progPool = []string{"p.mtail", "q.mtail", "dir-x.mtail", "r", "p%d.mtail"}
var hostPool = []string{"h", "web-01.example.org", "localhost", "10.0.0.1", "h%s", "web%20", "100%"}
var prefixPool = []string{"", "", "mtail.", "pre-", "a.b.", "p%d.", "%", "x%s"}
var finitePool = []float64{0, 1, -1, 0.5, -2.75, 1e300, -1e300, 9007199254740993, 5e-324, 3.141592653589793, 1e-7, 123456789.125, 1e21, 1e20, 0.000001, 100000, 1e6, 2.5e-5}
var nonfinitePool = []float64{math.Inf(1), math.Inf(-1), math.NaN()}
var intPool = []int64{0, 1, -1, 42, -7, 9007199254740993, math.MaxInt64, math.MinInt64, 1 << 53}

// pick draws from a pool; half of the stores are kept free of '%'
func pick(r *vlib.Rand, pct bool, pool []string) string {
	for {
		x := vlib.Pick(r, pool)
		if pct || !strings.Contains(x, "%") {
			return x
		}
	}
}

func genStore(r *vlib.Rand, nonfinite, seps bool) storeSpec {
	q := vlib.Q
	pct := r.Chance(55)
	sp := storeSpec{Kind: "store", Host: q(pick(r, pct, hostPool)), Omit: r.Chance(30), Interval: int64(vlib.Pick(r, []int{0, 1, 60, 300})), Disturb: vlib.Pick(r, []int{0, 0, 1, 1, 2, 3, 4, 5}), RealPush: r.Chance(20), PromFirst: r.Chance(50),
		GPrefix: q(pick(r, pct, prefixPool)), SPrefix: q(pick(r, pct, prefixPool)), CPrefix: q(pick(r, pct, prefixPool))}
	nm := 1 + r.Intn(5)
	used := map[string]bool{}
	distinct := int64(0)
	for len(sp.Metrics) < nm {
		name, prog := pick(r, pct, namePool), pick(r, pct, progPool)
		if used[name] {
			continue
		}
		used[name] = true
		kind := vlib.Pick(r, []string{"counter", "gauge", "timer", "text", "histogram", "counter", "gauge"})
		typ := vlib.Pick(r, []string{"int", "float"})
		if kind == "histogram" {
			typ = "buckets"
		} else if kind == "text" {
			typ = "string"
		}
		nk := r.Intn(4)
		var keys []string
		for len(keys) < nk {
			k := vlib.Pick(r, keyPool)
			dup := false
			for _, x := range keys {
				dup = dup || x == k
			}
			if !dup {
				keys = append(keys, k)
			}
		}
		ms := mSpec{Name: q(name), Prog: q(prog), Kind: kind, Type: typ, Keys: vlib.Qs(keys), Hidden: r.Chance(10),
			Source: q(fmt.Sprintf("%s:%d:%d-%d", prog, 1+r.Intn(40), 1+r.Intn(20), 21+r.Intn(9)))}
		if r.Chance(10) {
			ms.Source = q("")
		}
		if r.Chance(15) {
			ms.Limit = 1 + r.Intn(50)
		}
		if typ == "buckets" {
			b := vlib.Pick(r, []float64{0.001, 0.5, 1, 2})
			for i, n := 0, 2+r.Intn(3); i < n; i++ {
				ms.Bounds = append(ms.Bounds, hx(b))
				b = b*2 + float64(r.Intn(3))*0.25
			}
		}
		nls := 2 + r.Intn(3)
		if nk == 0 {
			nls = 1
		}
		seen := map[string]bool{}
		for tries := 0; len(ms.Ls) < nls && tries < 50; tries++ {
			vals := make([]string, nk)
			for i := range vals {
				vals[i] = pick(r, pct, valPool)
				if seps && r.Chance(25) {
					vals[i] = vlib.Pick(r, sepVals)
				}
			}
			k := fmt.Sprintf("%q", vals)
			if seen[k] {
				continue
			}
			seen[k] = true
			distinct++
			l := lsSpec{Vals: vlib.Qs(vals), T: int64(1600000000+r.Intn(100000000))*1e9 + int64(r.Intn(1e9))}
			if r.Chance(10) {
				l.T = int64(r.Intn(5e9))
			}
			if r.Chance(15) {
				l.Expiry = int64(1+r.Intn(3600)) * 1e9
			}
			switch typ {
			case "int":
				l.I = vlib.Pick(r, intPool)
				if r.Chance(70) {
					l.I = distinct*1000 + int64(r.Intn(1000))
				}
			case "float":
				f := vlib.Pick(r, finitePool) + float64(distinct)
				if r.Chance(30) {
					f = vlib.Pick(r, finitePool)
				}
				if nonfinite && r.Chance(25) {
					f = vlib.Pick(r, nonfinitePool)
				}
				l.F = hx(f)
			case "string":
				l.S = q(pick(r, pct, []string{"", "hello", "v1.2.3", "a b", "x\"y", "50%", "%v", "%d items", "100%",
					// control characters (ANSI colour codes in log lines, NUL, BEL), JSON's own
					// specials, U+2028/2029, a rune outside the BMP, a non-printable one
					"\x1b[31mred\x1b[0m", "nul\x00", "bel\x07", "tab\tbs\\", "cr\rx", "\u2028\u2029", "\U0001F600", "\u0080\u009f", "<&>", "del\x7f"}) + strconv.FormatInt(distinct, 10))
				if pct && r.Chance(25) {
					l.S = q(strconv.FormatInt(distinct, 10) + "%") // a trailing percent sign
				}
			case "buckets":
				for i, n := 0, 1+r.Intn(6)+int(distinct%3); i < n; i++ {
					v := unhx(vlib.Pick(r, ms.Bounds)) + float64(r.Intn(5)-2)*0.125
					if nonfinite && r.Chance(8) {
						v = vlib.Pick(r, nonfinitePool)
					}
					l.Obs = append(l.Obs, hx(v))
				}
			}
			ms.Ls = append(ms.Ls, l)
		}
		// a key-less counter or histogram as a reloaded program leaves it
		if nk == 0 && (kind == "counter" || kind == "histogram") && len(ms.Ls) == 1 && r.Chance(60) {
			ms.Reload = true
			ms.Ls[0].Expiry = 0
		}
		sp.Metrics = append(sp.Metrics, ms)
	}
	return sp
}

func runStore(out *vlib.Out, sp storeSpec, stream string) {
	st, built := build(sp)
	o := export(st, sp)
	for _, v := range check(sp, built, o) {
		out.Violate(v.class, v.what, sp)
	}
	if sp.RealPush {
		for _, v := range realPush(st, sp, o) {
			out.Violate(v.class, v.what, sp)
		}
	}
	js := "None"
	if o.JSONCode == 200 {
		dec := json.NewDecoder(bytes.NewReader([]byte(o.JSONBody)))
		dec.UseNumber()
		root, err := parseJSON(dec)
		if err != nil || root.kind != "arr" {
			out.Violate("json-not-decodable", fmt.Sprint(err), sp)
		} else {
			xs := make([]string, len(root.arr))
			for i, c := range root.arr {
				xs[i] = c.coq()
			}
			js = vlib.Some(vlib.List(xs))
		}
	}
	id := out.NextID()
	multi, kinds := false, map[string]bool{}
	for _, bm := range built {
		if len(bm.ls) >= 2 {
			multi = true
		}
		kinds[bm.spec.Kind] = true
	}
	out.Add(vlib.App("CFmt", vlib.N(id), coqCfg(sp), coqStore(built), coqRecords(o.Varz), coqRecords(o.GraphiteHTTP),
		coqRecords(o.GraphitePush), coqRecords(o.Statsd), coqRecords(o.Collectd), js), sp, multi && len(kinds) >= 2)
	out.Count(fmt.Sprintf("%s/json=%d/hist=%v/text=%v", stream, o.JSONCode, kinds["histogram"], kinds["text"]))
	pct, reload := false, false
	for _, ms := range sp.Metrics {
		reload = reload || ms.Reload
		pct = pct || strings.Contains(ms.Name+ms.Prog, "%")
		for _, l := range ms.Ls {
			pct = pct || strings.Contains(strings.Join(l.Vals, "")+l.S, "%")
		}
	}
	pct = pct || strings.Contains(sp.Host+sp.GPrefix+sp.SPrefix+sp.CPrefix, "%")
	if pct {
		out.Count("stores-with-percent-sign")
	}
	if reload {
		out.Count("stores-with-reloaded-scalar-metric")
	}
}

func corpus() []storeSpec {
	q := vlib.Q
	base := storeSpec{Kind: "store", Host: q("h"), Interval: 60, GPrefix: q(""), SPrefix: q(""), CPrefix: q("")}
	hist := base
	hist.Metrics = []mSpec{{Name: q("lat"), Prog: q("p.mtail"), Kind: "histogram", Type: "buckets", Keys: []string{q("code")}, Source: q("p.mtail:1:11-13"),
		Bounds: []string{hx(1), hx(2)}, Ls: []lsSpec{
			{Vals: []string{q("a")}, Obs: []string{hx(0.5), hx(0.5), hx(0.5)}, T: 1700000000e9},
			{Vals: []string{q("b")}, Obs: []string{hx(7)}, T: 1700000001e9}}}}
	inf := base
	inf.Metrics = []mSpec{{Name: q("g"), Prog: q("p.mtail"), Kind: "gauge", Type: "float", Keys: []string{}, Source: q("p.mtail:2:7-7"),
		Ls: []lsSpec{{Vals: []string{}, F: hx(math.Inf(1)), T: 1700000000e9}}}}
	two := base
	two.Metrics = []mSpec{{Name: q("c"), Prog: q("p.mtail"), Kind: "counter", Type: "int", Keys: []string{q("k")}, Source: q("p.mtail:3:9-9"),
		Ls: []lsSpec{{Vals: []string{q("a")}, I: 11, T: 1700000000e9}, {Vals: []string{q("b")}, I: 22, T: 1700000005e9, Expiry: 5e9}}}}
	// the sanitisation collision of C22_sanitisation_collision_refuted: a.b / a_b
	// (graphite, statsd) and a-b / a_b (collectd) share a path; tied to the code by
	// the correspondence (the per-label-set oracle is outside its domain here)
	col := base
	col.Metrics = []mSpec{{Name: q("c"), Prog: q("p"), Kind: "counter", Type: "int", Keys: []string{q("k")}, Source: q(""),
		Ls: []lsSpec{{Vals: []string{q("a.b")}, I: 1, T: 1700000000e9}, {Vals: []string{q("a_b")}, I: 2, T: 1700000000e9}, {Vals: []string{q("a-b")}, I: 3, T: 1700000000e9}}}}
	// printf verbs and a trailing percent sign everywhere a record takes a string
	pct := base
	pct.Host, pct.GPrefix, pct.SPrefix, pct.CPrefix = q("h%s"), q("p%d."), q("%"), q("x%s")
	pct.Metrics = []mSpec{{Name: q("cpu%"), Prog: q("p%d.mtail"), Kind: "gauge", Type: "int", Keys: []string{q("path")}, Source: q(""),
		Ls: []lsSpec{{Vals: []string{q("/a%20b")}, I: 1, T: 1700000000e9}, {Vals: []string{q("100%")}, I: 2, T: 1700000001e9}}},
		{Name: q("note"), Prog: q("p"), Kind: "text", Type: "string", Keys: []string{}, Source: q(""),
			Ls: []lsSpec{{Vals: []string{}, S: q("100%"), T: 1700000002e9}}}}
	// a scalar counter and a scalar histogram after a program reload
	rel := base
	rel.Metrics = []mSpec{{Name: q("foo"), Prog: q("p.mtail"), Kind: "counter", Type: "int", Keys: []string{}, Source: q("p.mtail:1:9-11"), Reload: true,
		Ls: []lsSpec{{Vals: []string{}, I: 7, T: 1700000000e9}}},
		{Name: q("lat"), Prog: q("p.mtail"), Kind: "histogram", Type: "buckets", Keys: []string{}, Source: q("p.mtail:2:11-13"), Reload: true,
			Bounds: []string{hx(1), hx(2)}, Ls: []lsSpec{{Vals: []string{}, Obs: []string{hx(0.5), hx(3)}, T: 1700000003e9}}}}
	return []storeSpec{hist, inf, two, col, pct, rel}
}

func main() {
	a := vlib.ParseArgs()
	out := vlib.NewOut(a, "From V Require Import Corr.Run_C22.", "c22case", 60)
	r := vlib.NewRand(a.Seed)
	if a.Replay != "" {
		replay(a.Replay)
		return
	}
	n := 300
	if a.Thorough() {
		n = 3000
	}
	for _, sp := range corpus() {
		runStore(out, sp, "corpus")
	}
	for i := 0; i < n; i++ {
		switch i % 4 {
		case 0:
			runStore(out, genStore(r, true, false), "nonfinite")
		case 1:
			runStore(out, genStore(r, false, true), "separators")
		default:
			runStore(out, genStore(r, false, false), "main")
		}
	}
	out.Flush("stores of 1-5 metrics of every kind/type with 0-3 keys and 2-4 label sets carrying pairwise distinct values, random hostnames, prefixes, push intervals, prog label on/off, '%' and printf verbs in names, label values, hostnames, prefixes and text values; key-less counters and histograms built through the reload path (preallocated datum, Add, update, Add of the same declaration again); a quarter of the stores contain non-finite floats, a quarter label values containing separator characters; every store is exported in all six ways; non-trivial when some metric has >= 2 label sets and >= 2 kinds are present", false)
}

func replay(path string) {
	var v struct {
		Class string    `json:"class"`
		Case  storeSpec `json:"case"`
	}
	vlib.ReadJSON(path, &v)
	fmt.Printf("replay %s (%s)\n", path, v.Class)
	st, built := build(v.Case)
	o := export(st, v.Case)
	fmt.Printf("graphite:\n%s\nstatsd: %q\ncollectd:\n%s\nvarz:\n%s\njson (%d): %.300s\n", strings.Join(o.GraphiteHTTP, ""), o.Statsd,
		strings.Join(o.Collectd, ""), strings.Join(o.Varz, ""), o.JSONCode, o.JSONBody)
	vs := check(v.Case, built, o)
	for _, x := range vs {
		fmt.Printf("FAILS [%s]: %s\n", x.class, x.what)
	}
	if len(vs) > 0 {
		os.Exit(1)
	}
	fmt.Println("holds")
}

var _ = io.Discard
