//go:build verif

package main

// The real push: Exporter.PushMetrics dials the configured collectd (unix
// stream), graphite (tcp) and statsd (udp) targets itself.  What arrives there
// must be what the push writer produced for the same store when it was handed a
// plain writer (VerifC22Push, the output the model and the oracle judge): the
// same bytes on the stream targets, and on the datagram target ONE DATAGRAM PER
// RECORD in the same order (statsd records have no terminator: the datagram
// boundary is the record boundary).

import (
	"context"
	"fmt"
	"io"
	"net"
	"os"
	"path/filepath"
	"sort"
	"strings"
	"time"

	"github.com/google/mtail/internal/exporter"
	"github.com/google/mtail/internal/metrics"
	"github.com/google/mtail/internal/zzverif/vlib"
)

func realPush(st *metrics.Store, sp storeSpec, want outputs) []viol {
	dir, err := os.MkdirTemp("", "c22push")
	if err != nil {
		panic(err)
	}
	defer os.RemoveAll(dir)
	sock := filepath.Join(dir, "collectd.sock")
	ul, err := net.Listen("unix", sock)
	if err != nil {
		panic(err)
	}
	defer ul.Close()
	tl, err := net.Listen("tcp", "127.0.0.1:0")
	if err != nil {
		panic(err)
	}
	defer tl.Close()
	uc, err := net.ListenPacket("udp", "127.0.0.1:0")
	if err != nil {
		panic(err)
	}
	defer uc.Close()
	if c, ok := uc.(*net.UDPConn); ok {
		_ = c.SetReadBuffer(8 << 20)
	}
	stream := func(l net.Listener) chan string {
		ch := make(chan string, 1)
		go func() {
			c, err := l.Accept()
			if err != nil {
				ch <- "accept: " + err.Error()
				return
			}
			b, _ := io.ReadAll(c)
			c.Close()
			ch <- string(b)
		}()
		return ch
	}
	cch, gch := stream(ul), stream(tl)
	exporter.VerifC22SetTargets(sock, tl.Addr().String(), uc.LocalAddr().String())
	defer exporter.VerifC22SetTargets("", "", "")
	opts := []exporter.Option{exporter.Hostname(vlib.UnQ(sp.Host)), exporter.DisableExport(),
		exporter.PushInterval(time.Duration(sp.Interval) * time.Second)}
	if sp.Omit {
		opts = append(opts, exporter.OmitProgLabel())
	}
	e, err := exporter.New(context.Background(), st, opts...)
	if err != nil {
		panic(err)
	}
	exporter.VerifC22SetTargets("", "", "")
	e.PushMetrics()
	var vs []viol
	get := func(ch chan string) string {
		select {
		case s := <-ch:
			return s
		case <-time.After(5 * time.Second):
			return "timeout: nothing arrived"
		}
	}
	// Store.Range walks a Go map: the order of the metric names differs from one
	// export to the next, so records are compared as multisets
	sorted := func(xs []string) string {
		ys := append([]string{}, xs...)
		sort.Strings(ys)
		return fmt.Sprintf("%q", ys)
	}
	recs := func(s string) []string { return lines([]string{s}) }
	if got, w := get(cch), strings.Join(want.Collectd, ""); sorted(recs(got)) != sorted(recs(w)) {
		vs = append(vs, viol{"real-push-differs/collectd", fmt.Sprintf("the collectd socket received %q, the push writer produced %q", got, w)})
	}
	if got, w := get(gch), strings.Join(want.GraphitePush, ""); sorted(recs(got)) != sorted(recs(w)) {
		vs = append(vs, viol{"real-push-differs/graphite", fmt.Sprintf("the graphite connection received %q, the push writer produced %q", got, w)})
	}
	var dgrams []string
	buf := make([]byte, 1<<16)
	for len(dgrams) <= len(want.Statsd) {
		_ = uc.SetReadDeadline(time.Now().Add(150 * time.Millisecond))
		n, _, err := uc.ReadFrom(buf)
		if err != nil {
			break
		}
		dgrams = append(dgrams, string(buf[:n]))
	}
	if sorted(dgrams) != sorted(want.Statsd) {
		vs = append(vs, viol{"real-push-differs/statsd", fmt.Sprintf("the statsd port received the datagrams %q, the push writer produced the records %q (one datagram per record)", dgrams, want.Statsd)})
	}
	return vs
}
