//go:build verif

package main

// End-to-end part of c25: a real mtail.Server (real tailer, real loader) over
// generated log files.  After every tailer event the deltas of log_count,
// lines_total and log_lines_total are reconciled with the harness's own event
// log (oracle) and recorded for Run/TailCounters.v (correspondence).

import (
	"context"
	"expvar"
	"fmt"
	"os"
	"path/filepath"
	"sort"
	"strings"
	"time"

	"github.com/google/mtail/internal/metrics"
	"github.com/google/mtail/internal/mtail"
	"github.com/google/mtail/internal/waker"
	"github.com/google/mtail/internal/zzverif/progs"
	"github.com/google/mtail/internal/zzverif/vlib"
)

type TEvent struct {
	K    string `json:"k"` // create append remove
	F    string `json:"f"`
	Text string `json:"text,omitempty"` // quoted; create: content already in the file (must be skipped)
}

type TObs struct {
	LogCount   int64            `json:"log_count"`
	LinesTotal int64            `json:"lines_total"`
	LogLines   map[string]int64 `json:"log_lines"`
}

type TCase struct {
	Kind     string   `json:"kind"`
	Programs []string `json:"programs"`
	Events   []TEvent `json:"events"`
	Obs      []TObs   `json:"obs"`
	Stopped  bool     `json:"stopped"`
	Final    *TObs    `json:"final,omitempty"` // after the server has stopped
}

var tailFiles = []string{"a.log", "b.log", "c.log"}

func genText(r *vlib.Rand) string {
	var b strings.Builder
	n := r.Intn(4)
	for i := 0; i < n; i++ {
		switch r.Intn(6) {
		case 0: // empty line
		case 1:
			b.WriteString(progs.RandLine(r) + "\r")
		default:
			b.WriteString(progs.RandLine(r))
		}
		b.WriteString("\n")
	}
	if r.Chance(35) || n == 0 {
		b.WriteString(vlib.Pick(r, []string{"a", "b u", "part", "c w"})) // unterminated tail
	}
	return b.String()
}

func genTail(r *vlib.Rand) *TCase {
	c := &TCase{Kind: "tail"}
	// disjoint metric names: no program is refused by the store
	names := [][]string{{"x", "y"}, {"z", "w"}}
	for i := 0; i < 1+r.Intn(2); i++ {
		o := progs.GenOpts{Expire: true, MaxDecls: 2, Names: names[i]}
		c.Programs = append(c.Programs, progs.Gen(r, o).Source())
	}
	exists := map[string]bool{}
	n := 5 + r.Intn(8)
	for len(c.Events) < n {
		f := vlib.Pick(r, tailFiles)
		switch x := r.Intn(100); {
		case !exists[f]:
			ev := TEvent{K: "create", F: f}
			if r.Chance(40) {
				ev.Text = genText(r)
			}
			c.Events = append(c.Events, ev)
			exists[f] = true
		case x < 78:
			c.Events = append(c.Events, TEvent{K: "append", F: f, Text: genText(r)})
		default:
			c.Events = append(c.Events, TEvent{K: "remove", F: f})
			exists[f] = false
		}
	}
	return c
}

func readExpMap(name string) map[string]int64 {
	out := map[string]int64{}
	if v, ok := expvar.Get(name).(*expvar.Map); ok && v != nil {
		v.Do(func(kv expvar.KeyValue) {
			if i, ok := kv.Value.(*expvar.Int); ok {
				out[kv.Key] = i.Value()
			}
		})
	}
	return out
}

func readExpInt(name string) int64 {
	if v, ok := expvar.Get(name).(*expvar.Int); ok && v != nil {
		return v.Value()
	}
	return 0
}

type tfinding struct{ class, what string }

var tailTimedOut bool

// runTail executes the case on a real server.  The expected values come from
// the harness's own account of what it wrote; the observed values are recorded.
func runTail(c *TCase) []tfinding {
	var out []tfinding
	root, err := os.MkdirTemp("", "c25tail")
	if err != nil {
		panic(err)
	}
	defer os.RemoveAll(root)
	progDir, logDir := filepath.Join(root, "progs"), filepath.Join(root, "logs")
	_ = os.MkdirAll(progDir, 0o755)
	_ = os.MkdirAll(logDir, 0o755)
	for i, s := range c.Programs {
		_ = os.WriteFile(filepath.Join(progDir, fmt.Sprintf("t%d.mtail", i)), []byte(s), 0o644)
	}
	baseCount, baseLines := readExpInt("log_count"), readExpInt("lines_total")
	baseLoads := readExpMap("prog_loads_total")
	ctx, cancel := context.WithCancel(context.Background())
	m, err := mtail.New(ctx, metrics.NewStore(), mtail.ProgramPath(progDir),
		mtail.LogPathPatterns(filepath.Join(logDir, "*.log")),
		mtail.LogPatternPollWaker(waker.NewTimed(ctx, time.Millisecond)),
		mtail.LogstreamPollWaker(waker.NewTimed(ctx, time.Millisecond)))
	if err != nil {
		panic(err)
	}
	ret := make(chan error, 1)
	go func() { ret <- m.Run() }()
	for i := range c.Programs {
		n := fmt.Sprintf("t%d.mtail", i)
		if d := readExpMap("prog_loads_total")[n] - baseLoads[n]; d != 1 {
			out = append(out, tfinding{"prog-loads-inexact", fmt.Sprintf("%s loaded once at start-up, prog_loads_total moved by %d", n, d)})
		}
	}

	// the harness's own event log
	open := map[string]bool{}
	pending := map[string]string{}
	lines := map[string]int64{}
	var total int64
	observe := func() TObs {
		o := TObs{LogCount: readExpInt("log_count") - baseCount, LinesTotal: readExpInt("lines_total") - baseLines, LogLines: map[string]int64{}}
		ll := readExpMap("log_lines_total")
		for _, f := range tailFiles {
			if v, ok := ll[filepath.Join(logDir, f)]; ok {
				o.LogLines[f] = v
			}
		}
		return o
	}
	matches := func(o TObs) bool {
		if o.LogCount != int64(len(open)) || o.LinesTotal != total {
			return false
		}
		for _, f := range tailFiles {
			if o.LogLines[f] != lines[f] {
				return false
			}
		}
		return true
	}
	for step, ev := range c.Events {
		p := filepath.Join(logDir, ev.F)
		text := vlib.UnQ(ev.Text)
		switch ev.K {
		case "create":
			// appear atomically with the content: a file that is picked up while
			// it is still empty would have the content read as new data
			tmp := filepath.Join(root, "new.tmp")
			if err := os.WriteFile(tmp, []byte(text), 0o644); err != nil {
				panic(err)
			}
			if err := os.Rename(tmp, p); err != nil {
				panic(err)
			}
			open[ev.F] = true
			pending[ev.F] = "" // the stream starts at the end of the file
		case "append":
			fd, err := os.OpenFile(p, os.O_APPEND|os.O_WRONLY, 0o644)
			if err != nil {
				panic(err)
			}
			if _, err := fd.Write([]byte(text)); err != nil {
				panic(err)
			}
			_ = fd.Close()
			if open[ev.F] {
				all := pending[ev.F] + text
				n := int64(strings.Count(all, "\n"))
				lines[ev.F] += n
				total += n
				pending[ev.F] = all[strings.LastIndex(all, "\n")+1:]
			}
		case "remove":
			_ = os.Remove(p)
			if open[ev.F] {
				if pending[ev.F] != "" {
					lines[ev.F]++
					total++
				}
				delete(open, ev.F)
				delete(pending, ev.F)
			}
		}
		// the counters are updated by the tailer's and the loader's goroutines:
		// wait until they agree with the event log, then make sure they stay
		var o TObs
		wait := 3 * time.Second
		if tailTimedOut {
			wait = 40 * time.Millisecond // a counter already failed to arrive once in this run
		}
		deadline := time.Now().Add(wait)
		for {
			o = observe()
			if matches(o) {
				break
			}
			if time.Now().After(deadline) {
				tailTimedOut = true
				break
			}
			time.Sleep(500 * time.Microsecond)
		}
		time.Sleep(4 * time.Millisecond)
		o2 := observe()
		if matches(o) && !matches(o2) {
			out = append(out, tfinding{"counter-moved-without-event", fmt.Sprintf("step %d (%s %s): counters went from %+v to %+v with no event in between", step+1, ev.K, ev.F, o, o2)})
		}
		o = o2
		c.Obs = append(c.Obs, o)
		if o.LogCount != int64(len(open)) {
			out = append(out, tfinding{"log-count-inexact", fmt.Sprintf("step %d (%s %s): %d logs are being tailed, log_count says %d", step+1, ev.K, ev.F, len(open), o.LogCount)})
		}
		var sum int64
		for _, f := range tailFiles {
			sum += o.LogLines[f]
			if o.LogLines[f] != lines[f] {
				out = append(out, tfinding{"log-lines-total-inexact", fmt.Sprintf("step %d (%s %s): %d lines were delivered from %s, log_lines_total says %d", step+1, ev.K, ev.F, lines[f], f, o.LogLines[f])})
			}
		}
		if o.LinesTotal != sum || o.LinesTotal != total {
			out = append(out, tfinding{"lines-total-vs-streams", fmt.Sprintf("step %d (%s %s): the streams delivered %d lines (log_lines_total sums to %d), lines_total says %d", step+1, ev.K, ev.F, total, sum, o.LinesTotal)})
		}
	}
	cancel()
	select {
	case <-ret:
		c.Stopped = true
		// the end of the run: the tailer has closed the loader's channel and the
		// loader has returned.  Streams may have flushed an unterminated last line
		// on their way out; whatever they counted, the loader must have received.
		o := observe()
		c.Final = &o
		var sum int64
		for _, f := range tailFiles {
			sum += o.LogLines[f]
		}
		if o.LinesTotal != sum {
			out = append(out, tfinding{"lines-total-vs-streams-after-shutdown", fmt.Sprintf("after the server stopped: the streams delivered %d lines (log_lines_total summed over the logs), lines_total says %d", sum, o.LinesTotal)})
		}
		if o.LinesTotal < total {
			out = append(out, tfinding{"lines-total-vs-streams-after-shutdown", fmt.Sprintf("after the server stopped: lines_total says %d, but %d lines had been delivered before", o.LinesTotal, total)})
		}
	case <-time.After(10 * time.Second):
		out = append(out, tfinding{"server-did-not-stop", "mtail.Server.Run did not return within 10 s of the cancellation"})
	}
	return out
}

func coqTCase(id uint64, c *TCase) string {
	evs := make([]string, len(c.Events))
	for i, e := range c.Events {
		switch e.K {
		case "create":
			evs[i] = vlib.App("TOpen", progs.B(e.F))
		case "append":
			evs[i] = vlib.App("TRead", progs.B(e.F), progs.B(vlib.UnQ(e.Text)))
		case "remove":
			evs[i] = vlib.App("TEnd", progs.B(e.F))
		}
	}
	obs := make([]string, len(c.Obs))
	for i, o := range c.Obs {
		var fs []string
		for f := range o.LogLines {
			fs = append(fs, f)
		}
		sort.Strings(fs)
		xs := make([]string, len(fs))
		for j, f := range fs {
			xs[j] = fmt.Sprintf("(%s, %d)", progs.B(f), o.LogLines[f])
		}
		obs[i] = vlib.App("mktobs", vlib.Z(o.LogCount), fmt.Sprint(o.LinesTotal), vlib.List(xs))
	}
	return vlib.App("C25T", vlib.N(id), vlib.List(evs), vlib.List(obs))
}
