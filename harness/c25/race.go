//go:build verif

package main

// Several connections of one socket source deliver their first lines at the
// same moment (search aid: schedules are whatever the Go runtime does).  Every
// line any of their readers sends must be counted in log_lines_total[source],
// whoever created the counter.

import (
	"context"
	"fmt"
	"strings"
	"sync"

	"github.com/google/mtail/internal/logline"
	"github.com/google/mtail/internal/tailer/logstream"
	"github.com/google/mtail/internal/zzverif/vlib"
)

func concurrentFirstLines(out *vlib.Out, trials int) {
	const readers, per = 4, 6
	hits := 0
	for t := 0; t < trials && hits < 3; t++ {
		name := fmt.Sprintf("unix:///c25-race-%d", t) // a source that never delivered a line
		ch := make(chan *logline.LogLine, readers*per+4)
		var start, done sync.WaitGroup
		start.Add(1)
		for r := 0; r < readers; r++ {
			var b strings.Builder
			for i := 0; i < per; i++ {
				fmt.Fprintf(&b, "%d:%d\n", r, i)
			}
			lr := logstream.NewLineReader(name, ch, strings.NewReader(b.String()), 4096, func() {})
			done.Add(1)
			go func() {
				defer done.Done()
				start.Wait()
				for {
					n, err := lr.ReadAndSend(context.Background())
					if n == 0 || err != nil {
						break
					}
				}
				lr.Finish(context.Background())
				lr.VerifStopTimer()
			}()
		}
		start.Done()
		done.Wait()
		delivered := int64(len(ch))
		counted := readExpMap("log_lines_total")[name]
		if counted != delivered {
			hits++
			out.Violate("log-lines-total-inexact/concurrent-first-lines",
				fmt.Sprintf("%d connections of the new source %s delivered %d lines at the same time, log_lines_total[%s] says %d", readers, name, delivered, name, counted),
				map[string]any{"kind": "concurrent-first-lines", "readers": readers, "lines_each": per, "trial": t})
		}
		out.Count("concurrent-first-lines-trials")
	}
}
