//go:build verif

// c25: self-monitoring counters are exact.
// Correspondence: load/reload/unload/line/GC histories over 1-3 programs (some
// failing to compile, some refused by the store, some raising runtime errors)
// on the real Runtime; after every step the deltas of lines_total,
// prog_loads_total, prog_load_errors_total, prog_unloads_total and
// prog_runtime_errors_total are compared with the counters of Run/Loader.v.
// Oracle (independent of the model): the same deltas against the harness's own
// event log; runtime errors are predicted by the reference interpreter.
package main

import (
	"fmt"
	"os"
	"strings"

	"github.com/google/mtail/internal/zzverif/progs"
	"github.com/google/mtail/internal/zzverif/vlib"
)

var progNames = []string{"p1.mtail", "p2.mtail", "p3.mtail"}

type hist struct {
	w    *progs.World
	ops  []progs.Op
	omit bool
	scan bool // a history of directory scans (C25S)
}

func genHistory(r *vlib.Rand) hist {
	w := progs.NewWorld()
	h := hist{w: w, omit: r.Chance(10)}
	np := 1 + r.Intn(3)
	o := progs.GenOpts{Expire: true, Hidden: true, Strptime: true, MaxDecls: 3, Names: []string{"x", "y", "z"}}
	cur := make([]*progs.Prog, np)
	for i := range cur {
		cur[i] = progs.Gen(r, o)
	}
	n := 6 + r.Intn(8)
	loaded := make([]bool, np)
	for len(h.ops) < n {
		i := r.Intn(np)
		switch x := r.Intn(100); {
		case x < 28 || !loaded[i] && x < 55:
			if loaded[i] {
				k := vlib.Pick(r, []string{"trail-comment", "rules", "keys", "syntax-error", "syntax-error", "identical", "fresh", "kind", "kind"})
				next := progs.Edit(r, cur[i], k, o)
				if !next.Broken {
					cur[i] = next
				}
				h.ops = append(h.ops, progs.Op{K: "load", Prog: progNames[i], Src: w.Src(next)})
			} else {
				h.ops = append(h.ops, progs.Op{K: "load", Prog: progNames[i], Src: w.Src(cur[i])})
				loaded[i] = true
			}
		case x < 36 && loaded[i]:
			h.ops = append(h.ops, progs.Op{K: "unload", Prog: progNames[i]})
		case x < 40:
			h.ops = append(h.ops, progs.Op{K: "gc"})
		default:
			h.ops = append(h.ops, progs.Op{K: "line", Line: progs.RandLine(r)})
		}
	}
	h.ops = append(h.ops, progs.Op{K: "line", Line: progs.RandLine(r)})
	return h
}

type finding struct{ class, what string }

type tally struct{ loads, errs, unloads, rterrs int64 }

// raises predicts whether the program raises a runtime error on the line: the
// erroring constructs of the grammar are `del m[k] after D` on a label tuple
// that does not exist (ExpireDatum: "No datum for given labelvalues") and
// strptime on the captured word, which never parses (the same text recurs on
// many lines: every occurrence is an error).
func raises(ast *progs.Prog, hs *progs.HSnap, line string) bool {
	present := make([]map[string]bool, len(hs.Metrics))
	for i, m := range hs.Metrics {
		present[i] = map[string]bool{}
		for _, lv := range m.LVs {
			present[i][strings.Join(lv.Ls, "\x00")] = true
		}
	}
	for _, e := range ast.Effects(line) {
		k := strings.Join(e.Ls, "\x00")
		switch e.Op {
		case "fail":
			return true
		case "inc", "set", "setf", "obs", "sets":
			present[e.M][k] = true
		case "del":
			delete(present[e.M], k)
		case "expire":
			if !present[e.M][k] {
				return true
			}
		}
	}
	return false
}

func check(h hist, c *progs.Case) (out []finding, interesting bool) {
	out, interesting, _, _ = reconcile(h, c)
	return out, interesting
}

// reconcile also returns the harness's own tallies (per program, and the log
// lines delivered) at the end of the history.
func reconcile(h hist, c *progs.Case) (out []finding, interesting bool, want map[string]*tally, lines int64) {
	want = map[string]*tally{}
	get := func(p string) *tally {
		if want[p] == nil {
			want[p] = &tally{}
		}
		return want[p]
	}
	var prev progs.Snap
	kinds := map[string]bool{}
	for i, op := range c.Ops {
		cur := c.Snaps[i]
		running := func(s progs.Snap, p string) *progs.HSnap {
			for j := range s.Handles {
				if s.Handles[j].Prog == p {
					return &s.Handles[j]
				}
			}
			return nil
		}
		switch op.K {
		case "load":
			old := running(prev, op.Prog)
			switch {
			case old != nil && old.Src == op.Src: // contents match: not an event
			case op.Err != "":
				get(op.Prog).errs++
				if strings.HasPrefix(op.Err, "compile failed") {
					kinds["compile-error"] = true
				} else {
					kinds["refused"] = true
				}
			default:
				get(op.Prog).loads++
			}
		case "scan":
			scanEvents(op, prev, cur, get, kinds)
		case "unload":
			if running(prev, op.Prog) != nil {
				get(op.Prog).unloads++
				kinds["unload"] = true
			}
		case "line":
			lines++
			for _, hs := range prev.Handles {
				if hs.Src >= 0 && hs.Src < len(h.w.Asts) && h.w.Asts[hs.Src] != nil && raises(h.w.Asts[hs.Src], &hs, op.Line) {
					get(hs.Prog).rterrs++
					kinds["runtime-error"] = true
				}
			}
		}
		cn := cur.Counters
		if cn.RawLines != cn.Sent {
			out = append(out, finding{"lines-total-inexact", fmt.Sprintf("step %d: %d lines were delivered to the loader, lines_total moved by %d", i+1, cn.Sent, cn.RawLines)})
		}
		if cn.Lines != lines {
			out = append(out, finding{"lines-total-inexact", fmt.Sprintf("step %d: %d log lines (plus barriers) delivered, lines_total says %d", i+1, lines, cn.Lines)})
		}
		got := map[string]progs.ProgCounters{}
		for _, pc := range cn.Progs {
			got[pc.Prog] = pc
		}
		for p, w := range want {
			g := got[p]
			if g.Loads != w.loads {
				out = append(out, finding{"prog-loads-inexact", fmt.Sprintf("step %d: %s loaded %d times, prog_loads_total says %d", i+1, p, w.loads, g.Loads)})
			}
			if g.Errs != w.errs {
				cl := "prog-load-errors-inexact"
				if !strings.HasPrefix(op.Err, "compile failed") && op.K == "load" && op.Err != "" {
					cl = "refused-load-not-counted"
				}
				out = append(out, finding{cl, fmt.Sprintf("step %d: %s failed to load %d times, prog_load_errors_total says %d (last error: %.80q)", i+1, p, w.errs, g.Errs, op.Err)})
			}
			if g.Unloads != w.unloads {
				out = append(out, finding{"prog-unloads-inexact", fmt.Sprintf("step %d: %s unloaded %d times, prog_unloads_total says %d", i+1, p, w.unloads, g.Unloads)})
			}
			if g.RtErrs != w.rterrs {
				out = append(out, finding{"runtime-errors-inexact", fmt.Sprintf("step %d: %s raised %d runtime errors, prog_runtime_errors_total says %d", i+1, p, w.rterrs, g.RtErrs)})
			}
		}
		for p, g := range got {
			if want[p] == nil && (g.Loads|g.Errs|g.Unloads|g.RtErrs) != 0 {
				out = append(out, finding{"counter-for-unknown-program", fmt.Sprintf("step %d: counters moved for %s which had no event", i+1, p)})
			}
		}
		prev = cur
	}
	return out, len(kinds) >= 2, want, lines
}

func main() {
	a := vlib.ParseArgs()
	progs.Quiet()
	if a.Replay != "" {
		replay(a.Replay)
		return
	}
	out := vlib.NewOut(a, progs.Header("Run_C25"), "c25case", 60)
	rng := vlib.NewRand(a.Seed)
	n := 300
	if a.Thorough() {
		n = 6000
	}
	var hs []hist
	hs = append(hs, corpus())
	for i := 0; i < n; i++ {
		hs = append(hs, genHistory(rng.Fork()))
	}
	nscan := 40
	if a.Thorough() {
		nscan = 600
	}
	for i := 0; i < nscan; i++ {
		h := genScanHistory(rng.Fork())
		h.scan = true
		hs = append(hs, h)
	}
	for _, h := range hs {
		c := h.w.Run(h.ops, h.omit, true)
		fs, interesting := check(h, c)
		id := out.NextID()
		if h.scan {
			c.Note = "scan"
			out.Add("(C25S "+h.w.CoqDCase(id, c)+")", c, interesting)
		} else {
			out.Add("(C25L "+h.w.CoqLCase(id, c)+")", c, interesting)
		}
		for _, op := range c.Ops {
			switch {
			case op.K == "load" && op.Err == "":
				out.Count("load-ok-or-identical")
			case op.K == "load" && strings.HasPrefix(op.Err, "compile failed"):
				out.Count("load-compile-error")
			case op.K == "load":
				out.Count("load-refused")
			default:
				out.Count(op.K)
			}
		}
		last := c.Snaps[len(c.Snaps)-1].Counters
		for _, pc := range last.Progs {
			if pc.RtErrs > 0 {
				out.Count("histories-with-runtime-errors")
				break
			}
		}
		seen := map[string]bool{}
		for _, f := range fs {
			if seen[f.class] {
				continue
			}
			seen[f.class] = true
			out.Violate(f.class, f.what, map[string]any{"kind": "history", "case": c})
		}
	}
	// ---- end to end: real tailer + real loader ----
	nt := 40
	if a.Thorough() {
		nt = 600
	}
	for i := 0; i < nt; i++ {
		tc := genTail(rng.Fork())
		for _, e := range tc.Events {
			// quote once, for JSON and replay
			_ = e
		}
		for j := range tc.Events {
			tc.Events[j].Text = vlib.Q(tc.Events[j].Text)
		}
		fs := runTail(tc)
		id := out.NextID()
		removed, partial := false, false
		for _, e := range tc.Events {
			if e.K == "remove" {
				removed = true
			}
			if e.K == "append" && !strings.HasSuffix(vlib.UnQ(e.Text), "\n") {
				partial = true
			}
			out.Count("tail/" + e.K)
		}
		out.Add(coqTCase(id, tc), tc, removed && partial)
		out.Count("tail/histories")
		seen := map[string]bool{}
		for _, f := range fs {
			if seen[f.class] {
				continue
			}
			seen[f.class] = true
			out.Violate(f.class, f.what, map[string]any{"kind": "tail", "case": tc})
		}
	}
	// ---- the end of a run ----
	nd, ne := 80, 40
	if a.Thorough() {
		nd, ne = 1500, 600
	}
	report := func(fs []finding, kind string, c any) {
		seen := map[string]bool{}
		for _, f := range fs {
			if seen[f.class] {
				continue
			}
			seen[f.class] = true
			out.Violate(f.class, f.what, map[string]any{"kind": kind, "case": c})
		}
	}
	for i := 0; i < nd; i++ {
		dc := genExact(rng.Fork())
		fs := runExact(dc)
		out.Add(coqDCase(out.NextID(), dc), dc, dc.InFlight > 0 && dc.NLines > 0)
		out.Count("end-exact/histories")
		switch {
		case dc.NLines == 0:
			out.Count("end-exact/no-line-sent")
		case len(dc.Names) == 0:
			out.Count("end-exact/no-program")
		case dc.InFlight > 0:
			out.Count("end-exact/closed-while-last-line-held-out")
		default:
			out.Count("end-exact/closed-while-loader-idle")
		}
		report(fs, "end-exact", dc)
	}
	calibrateSlow()
	for i := 0; i < ne; i++ {
		er := genEnd(rng.Fork().Uint64())
		ec, fs := runEnd(er)
		busyAtEnd := false
		for j, b := range er.burst {
			if b == slowMark && j < len(er.burst)-1 {
				busyAtEnd = true
			}
		}
		out.Add(coqECase(out.NextID(), er, ec), ec, busyAtEnd)
		out.Count("end-run/histories")
		if busyAtEnd {
			out.Count("end-run/vm-busy-when-last-line-sent")
		}
		out.Count(fmt.Sprintf("end-run/close-after-%dus", er.delay))
		report(fs, "end-run", ec)
	}
	out.Extra["slow_line_bytes"] = len(slowLine)
	cf := 400
	if a.Thorough() {
		cf = 6000
	}
	concurrentFirstLines(out, cf)
	out.Flush("load/reload/unload/line/GC histories (7-14 steps) over 1-3 programs; every expvar delta is compared after every step; non-trivial when the history contains at least two of: compile error, refused registration, unload, runtime error; plus end-to-end histories of a real mtail.Server over 1-3 log files (create with content to be skipped, append with empty lines, CRLF and unterminated tails, remove) reconciling log_count, log_lines_total and lines_total after every event, non-trivial when a file is removed and some append ends without a newline; plus ends of runs: the real fan-out loop over 0-3 stand-in programs under exact interleavings of 0-4 sends, the close, hand-overs and the end of input (non-trivial when the channel is closed while the loader still holds the last line out to a program), and real Runtimes with real VMs whose input is closed 0-200 us after a burst of 1-5 lines (non-trivial when a VM is still busy with a slow line when the last line is sent), lines_total and the per-program counters read after shutdown", false)
}

// corpus: b.mtail refused at its second metric must count as a load error.
func corpus() hist {
	w := progs.NewWorld()
	rule := func(tok string, st ...progs.Stmt) progs.Rule { return progs.Rule{Tok: tok, Stmts: st} }
	a := &progs.Prog{Decls: []progs.Decl{{Kind: "gauge", Name: "y"}}, Rules: []progs.Rule{rule("a", progs.Stmt{Op: "set", M: 0, Val: 2})}}
	b := &progs.Prog{Decls: []progs.Decl{{Kind: "counter", Name: "x"}, {Kind: "counter", Name: "y"}},
		Rules: []progs.Rule{rule("a", progs.Stmt{Op: "inc", M: 0}, progs.Stmt{Op: "inc", M: 1})}}
	return hist{w: w, ops: []progs.Op{
		{K: "load", Prog: "a.mtail", Src: w.Src(a)},
		{K: "load", Prog: "b.mtail", Src: w.Src(b)},
		{K: "line", Line: "a u"},
	}}
}

func replay(path string) {
	var k struct {
		Class string `json:"class"`
		Case  struct {
			Kind string `json:"kind"`
			Case TCase  `json:"case"`
		} `json:"case"`
	}
	var kk struct {
		Class string `json:"class"`
		Case  struct {
			Kind string `json:"kind"`
		} `json:"case"`
	}
	vlib.ReadJSON(path, &kk)
	if kk.Case.Kind == "end-exact" || kk.Case.Kind == "end-run" {
		replayEnd(path, kk.Case.Kind, kk.Class)
		return
	}
	if kk.Case.Kind != "tail" {
		replayHistory(path)
		return
	}
	vlib.ReadJSON(path, &k)
	if k.Case.Kind == "tail" {
		tc := k.Case.Case
		tc.Obs = nil
		fmt.Printf("replay %s: end-to-end tail history, %d events\n", path, len(tc.Events))
		for i, e := range tc.Events {
			fmt.Printf("  step %d: %s %s %s\n", i+1, e.K, e.F, e.Text)
		}
		fail := false
		for _, f := range runTail(&tc) {
			fmt.Printf("%s: %s\n", f.class, f.what)
			if f.class == k.Class {
				fail = true
			}
		}
		if fail {
			fmt.Println("FAILS: " + k.Class)
			os.Exit(1)
		}
		fmt.Println("holds")
		return
	}
}

func replayHistory(path string) {
	var v struct {
		Class string `json:"class"`
		Case  struct {
			Case progs.Case `json:"case"`
		} `json:"case"`
	}
	vlib.ReadJSON(path, &v)
	c := v.Case.Case
	fmt.Printf("replay %s: re-running the recorded history\n", path)
	w := progs.NewWorld()
	for _, s := range c.Sources {
		w.Srcs.ID(vlib.UnQ(s))
	}
	h := hist{w: w, omit: c.Omit}
	for i, o := range c.Ops {
		o.Err = ""
		h.ops = append(h.ops, o)
		fmt.Printf("  step %d: %s %s %q\n", i+1, o.K, o.Prog, o.Line)
	}
	for i, s := range w.Srcs.Texts {
		fmt.Printf("--- source %d\n%s", i, s)
	}
	got := w.Run(h.ops, h.omit, true)
	// runtime errors cannot be predicted without the generator's AST: compare
	// the load/unload/lines counters only
	fail := false
	fs, _ := check(h, got)
	for _, f := range fs {
		fmt.Printf("%s: %s\n", f.class, f.what)
		if f.class == v.Class {
			fail = true
		}
	}
	if fail {
		fmt.Println("FAILS: " + v.Class)
		os.Exit(1)
	}
	fmt.Println("holds")
}
