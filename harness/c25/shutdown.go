//go:build verif

package main

// The END of a run (Run/Shutdown.v): the tailer closes the lines channel at an
// arbitrary point after its last send, in particular while the loader still
// holds the last line out to a program that has not taken it.
//
// end-exact: the real fan-out loop of runtime.New over stand-in programs
//   (handles whose channel this harness reads): the harness is the tailer and
//   every program's VM goroutine, so the interleaving of sends, close and
//   hand-overs is exact; only the order in which the loader offers a line to
//   the programs is the loader's (a Go map iteration) and is recorded.
// end-run: a real Runtime with real VMs: a quiescent prefix (loads, lines,
//   reloads, unloads), then lines pushed back to back -- one of them slow for
//   one program, so that its VM is still busy when the last line arrives --
//   and the channel closed 0-200 us after the last send.
// In both, lines_total (and in end-run every per-program counter) is read
// after the Runtime's wait group has been released.

import (
	"context"
	"fmt"
	"os"
	"reflect"
	"regexp"
	"strconv"
	"strings"
	"sync"
	"time"

	"github.com/google/mtail/internal/logline"
	"github.com/google/mtail/internal/metrics"
	"github.com/google/mtail/internal/runtime"
	"github.com/google/mtail/internal/zzverif/progs"
	"github.com/google/mtail/internal/zzverif/vlib"
)

// ---------------------------------------------------------------------------
// end-exact

type DAct struct {
	K string `json:"k"` // send close hand finish see
	L int    `json:"l,omitempty"`
	P string `json:"p,omitempty"`
}

type DCase struct {
	Kind     string           `json:"kind"`
	Names    []string         `json:"names"`
	NLines   int              `json:"nlines"`
	Seed     uint64           `json:"seed"` // of the scheduler's choices
	Acts     []DAct           `json:"acts"`
	Obs      []int64          `json:"obs"` // lines_total read after the action (-1: not read)
	Final    int64            `json:"final"`
	Got      map[string][]int `json:"got"`
	InFlight int              `json:"in_flight"` // programs that had not taken the last line when the channel was closed
	Stopped  bool             `json:"stopped"`
}

var standIns = []string{"sa.mtail", "sb.mtail", "sc.mtail"}

func genExact(r *vlib.Rand) *DCase {
	c := &DCase{Kind: "end-exact", Seed: r.Uint64(), NLines: r.Intn(5)}
	c.Names = append(c.Names, standIns[:vlib.Pick(r, []int{0, 1, 1, 2, 2, 2, 3, 3, 3})]...)
	if c.NLines == 0 && r.Chance(70) {
		c.NLines = 1 + r.Intn(3)
	}
	return c
}

var countLagged bool

// awaitCount gives the loader's goroutine a moment to publish its count.
func awaitCount(base, want int64) int64 {
	limit := 2 * time.Second
	if countLagged {
		limit = 20 * time.Millisecond
	}
	deadline := time.Now().Add(limit)
	for {
		d := readExpInt("lines_total") - base
		if d >= want {
			return d
		}
		if time.Now().After(deadline) {
			countLagged = true
			return d
		}
		time.Sleep(50 * time.Microsecond)
	}
}

// recvAny receives from whichever of the named channels the loader offers a
// line on, or times out.
func recvAny(chans map[string]<-chan *logline.LogLine, names []string, d time.Duration) (p string, l *logline.LogLine, ok, timedOut bool) {
	t := time.NewTimer(d)
	defer t.Stop()
	cases := make([]reflect.SelectCase, 0, len(names)+1)
	for _, n := range names {
		cases = append(cases, reflect.SelectCase{Dir: reflect.SelectRecv, Chan: reflect.ValueOf(chans[n])})
	}
	cases = append(cases, reflect.SelectCase{Dir: reflect.SelectRecv, Chan: reflect.ValueOf(t.C)})
	i, v, rok := reflect.Select(cases)
	if i == len(names) {
		return "", nil, false, true
	}
	if !rok {
		return names[i], nil, false, false
	}
	return names[i], v.Interface().(*logline.LogLine), true, false
}

func runExact(c *DCase) []finding {
	var out []finding
	r := vlib.NewRand(c.Seed)
	c.Acts, c.Obs, c.Got, c.InFlight, c.Stopped = nil, nil, map[string][]int{}, 0, false
	lines := make(chan *logline.LogLine)
	var wg sync.WaitGroup
	base := readExpInt("lines_total")
	rt, err := runtime.New(lines, &wg, "", metrics.NewStore())
	if err != nil {
		panic(err)
	}
	chans := map[string]<-chan *logline.LogLine{}
	for _, n := range c.Names {
		chans[n] = rt.VerifStandIn(n)
		c.Got[n] = []int{}
	}
	closed, sent, cur := false, 0, -1
	todo := map[string]bool{} // non-empty: the loader holds line cur out to these
	busy := map[string]bool{}
	rec := func(a DAct) {
		c.Acts = append(c.Acts, a)
		o := int64(-1)
		if len(todo) == 0 && a.K != "see" {
			// the loader has nothing in hand: its count must be there
			o = awaitCount(base, int64(sent))
			if o != int64(sent) {
				out = append(out, finding{"lines-total-inexact", fmt.Sprintf("end-exact: after %d actions the tailer has sent %d lines and the loader holds none, lines_total moved by %d", len(c.Acts), sent, o)})
			}
		}
		c.Obs = append(c.Obs, o)
	}
	stuck := func(what string) {
		out = append(out, finding{"loader-stuck", "end-exact: " + what})
		// let everything run out
		if !closed {
			close(lines)
			closed = true
		}
		for _, ch := range chans {
			go func(ch <-chan *logline.LogLine) {
				for range ch {
				}
			}(ch)
		}
	}
	ctx := context.Background()
	ok := true
	for ok {
		idle := len(todo) == 0
		if idle && closed {
			break
		}
		var opts []string
		if idle && !closed && sent < c.NLines {
			opts = append(opts, "send", "send")
		}
		if !closed && sent == c.NLines {
			opts = append(opts, "close", "close")
		}
		if !idle {
			opts = append(opts, "hand", "hand")
		}
		for _, n := range c.Names {
			if busy[n] {
				opts = append(opts, "finish:"+n)
			}
		}
		o := vlib.Pick(r, opts)
		switch {
		case o == "send":
			t := time.NewTimer(5 * time.Second)
			select {
			case lines <- logline.New(ctx, "log", "L"+strconv.Itoa(sent)):
				t.Stop()
			case <-t.C:
				stuck(fmt.Sprintf("the loader did not take line %d although it holds no line", sent))
				ok = false
				continue
			}
			cur = sent
			sent++
			for _, n := range c.Names {
				todo[n] = true
			}
			rec(DAct{K: "send", L: cur})
		case o == "close":
			close(lines)
			closed = true
			c.InFlight = len(todo)
			rec(DAct{K: "close"})
		case strings.HasPrefix(o, "finish:"):
			n := strings.TrimPrefix(o, "finish:")
			busy[n] = false
			rec(DAct{K: "finish", P: n})
		case o == "hand":
			var ready, waiting []string
			for _, n := range c.Names {
				if todo[n] && busy[n] {
					waiting = append(waiting, n)
				} else if todo[n] {
					ready = append(ready, n)
				}
			}
			finishOne := func() {
				q := vlib.Pick(r, waiting)
				busy[q] = false
				rec(DAct{K: "finish", P: q})
			}
			if len(ready) == 0 {
				finishOne()
				continue
			}
			d := 5 * time.Second
			if len(waiting) > 0 {
				d = 300 * time.Microsecond // the loader may be blocked on a program that is busy
			}
			p, l, rok, timedOut := recvAny(chans, ready, d)
			switch {
			case timedOut && len(waiting) > 0:
				finishOne()
			case timedOut:
				stuck(fmt.Sprintf("the loader holds line %d but offers it to none of %v", cur, ready))
				ok = false
			case !rok:
				out = append(out, finding{"program-channel-closed-early", fmt.Sprintf("end-exact: the channel of %s was closed while line %d had not been handed to it", p, cur)})
				stuck("giving up after an early close")
				ok = false
			default:
				id, perr := strconv.Atoi(strings.TrimPrefix(l.Line, "L"))
				if perr != nil || id != cur {
					out = append(out, finding{"wrong-line-handed", fmt.Sprintf("end-exact: %s was handed %q while the loader holds line %d", p, l.Line, cur)})
				}
				c.Got[p] = append(c.Got[p], id)
				delete(todo, p)
				busy[p] = true
				rec(DAct{K: "hand", P: p})
			}
		}
	}
	if ok {
		// the loader's receive reports the closed channel: it closes every
		// program's channel and returns
		for _, n := range c.Names {
			t := time.NewTimer(5 * time.Second)
			select {
			case l, rok := <-chans[n]:
				if rok {
					out = append(out, finding{"line-after-close", fmt.Sprintf("end-exact: %s was handed %q after every sent line had been handed over", n, l.Line)})
					go func(ch <-chan *logline.LogLine) {
						for range ch {
						}
					}(chans[n])
				}
			case <-t.C:
				out = append(out, finding{"loader-did-not-stop", fmt.Sprintf("end-exact: the channel of %s was not closed within 5 s of the end of input", n)})
			}
			t.Stop()
		}
		rec(DAct{K: "see"})
		for _, n := range c.Names {
			if busy[n] {
				busy[n] = false
				rec(DAct{K: "finish", P: n})
			}
		}
	}
	done := make(chan struct{})
	go func() { wg.Wait(); close(done) }()
	select {
	case <-done:
		c.Stopped = true
	case <-time.After(10 * time.Second):
		out = append(out, finding{"loader-did-not-stop", "end-exact: the Runtime's wait group was not released within 10 s of the end of input"})
	}
	c.Final = readExpInt("lines_total") - base
	if c.Final != int64(sent) {
		out = append(out, finding{"lines-total-after-close-inexact", fmt.Sprintf("end-exact: %d lines were sent before the channel was closed (%d programs had not taken the last one at that moment), lines_total after shutdown moved by %d", sent, c.InFlight, c.Final)})
	}
	for _, n := range c.Names {
		want := make([]int, sent)
		for i := range want {
			want[i] = i
		}
		if !reflect.DeepEqual(c.Got[n], want) {
			out = append(out, finding{"line-not-delivered-to-program", fmt.Sprintf("end-exact: %d lines were sent, %s received %v", sent, n, c.Got[n])})
		}
	}
	return out
}

func coqCLine(id int, now int) string { return fmt.Sprintf("(%d, %s)", id, vlib.Z(int64(now))) }

func coqDCase(id uint64, c *DCase) string {
	names := make([]string, len(c.Names))
	for i, n := range c.Names {
		names[i] = progs.B(n)
	}
	acts := make([]string, len(c.Acts))
	for i, a := range c.Acts {
		switch a.K {
		case "send":
			acts[i] = vlib.App("ASend", coqCLine(a.L, 0))
		case "close":
			acts[i] = "AClose"
		case "hand":
			acts[i] = vlib.App("AHand", progs.B(a.P))
		case "finish":
			acts[i] = vlib.App("AFinish", progs.B(a.P))
		case "see":
			acts[i] = "ASee"
		}
	}
	obs := make([]string, len(c.Obs))
	for i, o := range c.Obs {
		if o < 0 {
			obs[i] = "None"
		} else {
			obs[i] = vlib.Some(strconv.FormatInt(o, 10))
		}
	}
	var got []string
	for _, n := range c.Names {
		ls := make([]string, len(c.Got[n]))
		for i, l := range c.Got[n] {
			ls[i] = coqCLine(l, 0)
		}
		got = append(got, "("+progs.B(n)+", "+vlib.List(ls)+")")
	}
	return vlib.App("C25D", vlib.N(id), vlib.List(names), vlib.List(acts), vlib.List(obs), strconv.FormatInt(c.Final, 10), vlib.List(got))
}

// ---------------------------------------------------------------------------
// end-run

const slowName = "s.mtail"
const slowSource = "counter slow_seen\n/^s (?:.*a){12}$/ {\n  slow_seen++\n}\n"
const slowMark = "\x00slow"

var slowLine string

// calibrateSlow sizes the slow line so that the slow program needs about 3 ms
// for it on this machine, now.
func calibrateSlow() {
	re := regexp.MustCompile(`^s (?:.*a){12}$`)
	probe := "s " + strings.Repeat("ab", 16<<10) + "a"
	best := time.Hour
	for i := 0; i < 3; i++ {
		t := time.Now()
		if !re.MatchString(probe) {
			panic("slow pattern does not match its probe")
		}
		if d := time.Since(t); d < best {
			best = d
		}
	}
	perByte := float64(best.Nanoseconds()) / float64(len(probe))
	n := int(3e6 / perByte)
	if n < 8<<10 {
		n = 8 << 10
	}
	if n > 256<<10 {
		n = 256 << 10
	}
	slowLine = "s " + strings.Repeat("ab", n/2) + "a"
}

type ECase struct {
	Kind      string          `json:"kind"`
	Seed      uint64          `json:"seed"`
	Case      *progs.Case     `json:"case"` // the quiescent prefix, with the snapshot after every step
	Slow      bool            `json:"slow"` // the slow program is loaded
	SlowBytes int             `json:"slow_bytes"`
	Burst     []string        `json:"burst"` // "\x00slow" stands for the slow line
	DelayUs   int             `json:"delay_us"`
	Pushed    int             `json:"pushed"`
	Final     *progs.Counters `json:"final"`
	Stopped   bool            `json:"stopped"`
}

type endRun struct {
	h     hist
	burst []string
	delay int
	slow  bool
	seed  uint64
}

func genEnd(seed uint64) *endRun {
	r := vlib.NewRand(seed)
	w := progs.NewWorld()
	e := &endRun{h: hist{w: w, omit: r.Chance(10)}, seed: seed, slow: r.Chance(80)}
	np := 1 + r.Intn(2)
	o := progs.GenOpts{Expire: true, Hidden: true, Strptime: true, MaxDecls: 3, Names: []string{"x", "y", "z"}}
	cur := make([]*progs.Prog, np)
	for i := range cur {
		cur[i] = progs.Gen(r, o)
		e.h.ops = append(e.h.ops, progs.Op{K: "load", Prog: progNames[i], Src: w.Src(cur[i])})
	}
	if e.slow {
		e.h.ops = append(e.h.ops, progs.Op{K: "load", Prog: slowName, Src: w.Srcs.ID(slowSource)})
	}
	loaded := make([]bool, np)
	for i := range loaded {
		loaded[i] = true
	}
	for n := r.Intn(4); n > 0; n-- {
		i := r.Intn(np)
		switch x := r.Intn(100); {
		case x < 15:
			k := vlib.Pick(r, []string{"trail-comment", "rules", "syntax-error", "kind", "fresh"})
			next := progs.Edit(r, cur[i], k, o)
			if !next.Broken {
				cur[i] = next
			}
			e.h.ops = append(e.h.ops, progs.Op{K: "load", Prog: progNames[i], Src: w.Src(next)})
			loaded[i] = true
		case x < 25 && loaded[i]:
			e.h.ops = append(e.h.ops, progs.Op{K: "unload", Prog: progNames[i]})
			loaded[i] = false
		default:
			e.h.ops = append(e.h.ops, progs.Op{K: "line", Line: progs.RandLine(r)})
		}
	}
	n := 1 + r.Intn(4)
	for i := 0; i < n; i++ {
		e.burst = append(e.burst, progs.RandLine(r))
	}
	if e.slow && r.Chance(80) {
		// the slow program's VM is still on the slow line when the last line arrives
		at := len(e.burst) - 1
		e.burst = append(e.burst[:at:at], slowMark, e.burst[at])
	} else if e.slow && r.Chance(50) {
		e.burst = append(e.burst, slowMark)
	}
	e.delay = vlib.Pick(r, []int{0, 0, 5, 20, 50, 100, 200})
	return e
}

func burstText(b string) string {
	if b == slowMark {
		return slowLine
	}
	return b
}

// burstErrors predicts the runtime errors a program raises on the lines of the
// burst, from its state in the last quiescent snapshot (no GC pass runs in
// between: a label tuple exists from its first write until a `del`).
func burstErrors(ast *progs.Prog, hs *progs.HSnap, lines []string) int64 {
	present := make([]map[string]bool, len(hs.Metrics))
	for i, m := range hs.Metrics {
		present[i] = map[string]bool{}
		for _, lv := range m.LVs {
			present[i][strings.Join(lv.Ls, "\x00")] = true
		}
	}
	var n int64
	for _, line := range lines {
	effects:
		for _, e := range ast.Effects(line) {
			k := strings.Join(e.Ls, "\x00")
			switch e.Op {
			case "fail":
				n++
				break effects
			case "inc", "set", "setf", "obs", "sets":
				present[e.M][k] = true
			case "del":
				delete(present[e.M], k)
			case "expire":
				if !present[e.M][k] {
					n++
					break effects
				}
			}
		}
	}
	return n
}

func spin(us int) {
	if us <= 0 {
		return
	}
	end := time.Now().Add(time.Duration(us) * time.Microsecond)
	for time.Now().Before(end) {
	}
}

func runEnd(e *endRun) (*ECase, []finding) {
	var out []finding
	w := e.h.w
	var opts []runtime.Option
	if e.h.omit {
		opts = append(opts, runtime.OmitMetricSource())
	}
	rt, err := progs.NewRT(w.Srcs, "", opts...)
	if err != nil {
		panic(err)
	}
	pc := &progs.Case{Omit: e.h.omit}
	for _, o := range e.h.ops {
		rt.Tick()
		switch o.K {
		case "load":
			if err := rt.Load(o.Prog, w.Srcs.Texts[o.Src]); err != nil {
				o.Err = err.Error()
			}
		case "unload":
			rt.Unload(o.Prog)
		case "line":
			rt.Line(o.Line)
		}
		pc.Ops = append(pc.Ops, o)
		pc.Snaps = append(pc.Snaps, rt.Snapshot(true))
	}
	pc.Sources = vlib.Qs(w.Srcs.Texts)
	c := &ECase{Kind: "end-run", Seed: e.seed, Case: pc, Slow: e.slow, SlowBytes: len(slowLine), Burst: e.burst, DelayUs: e.delay}
	// the quiescent prefix is judged as every loader history is
	fs, _, want, lines := reconcile(e.h, pc)
	out = append(out, fs...)
	// the end of the run
	pushed := 0
	for _, b := range e.burst {
		if !rt.Push(burstText(b), 10*time.Second) {
			out = append(out, finding{"loader-stuck", fmt.Sprintf("end-run: the loader did not take line %d of the final burst within 10 s", pushed+1)})
			break
		}
		pushed++
	}
	c.Pushed = pushed
	spin(e.delay)
	rt.CloseInput()
	c.Stopped = rt.WaitStopped(20 * time.Second)
	if !c.Stopped {
		out = append(out, finding{"loader-did-not-stop", "end-run: the Runtime's wait group was not released within 20 s of the close of the input channel"})
	}
	c.Final = rt.CountersNow()
	f := c.Final
	if f.RawLines != f.Sent {
		out = append(out, finding{"lines-total-after-close-inexact", fmt.Sprintf("end-run: %d lines were delivered to the loader before the channel was closed (%d us after the last send), lines_total after shutdown moved by %d", f.Sent, e.delay, f.RawLines)})
	}
	if f.Lines != lines+int64(pushed) {
		out = append(out, finding{"lines-total-after-close-inexact", fmt.Sprintf("end-run: %d log lines were delivered, lines_total (less the barrier lines) says %d", lines+int64(pushed), f.Lines)})
	}
	last := pc.Snaps[len(pc.Snaps)-1]
	texts := make([]string, pushed)
	for i := range texts {
		texts[i] = burstText(e.burst[i])
	}
	for _, hs := range last.Handles {
		if want[hs.Prog] == nil {
			want[hs.Prog] = &tally{}
		}
		if hs.Src >= 0 && hs.Src < len(w.Asts) && w.Asts[hs.Src] != nil {
			hs := hs
			want[hs.Prog].rterrs += burstErrors(w.Asts[hs.Src], &hs, texts)
		}
	}
	got := map[string]progs.ProgCounters{}
	for _, p := range f.Progs {
		got[p.Prog] = p
	}
	for p, wt := range want {
		g := got[p]
		if g.RtErrs != wt.rterrs {
			out = append(out, finding{"runtime-errors-after-close-inexact", fmt.Sprintf("end-run: %s raised %d runtime errors in the whole run, prog_runtime_errors_total after shutdown says %d", p, wt.rterrs, g.RtErrs)})
		}
		if g.Loads != wt.loads || g.Errs != wt.errs || g.Unloads != wt.unloads {
			out = append(out, finding{"load-counters-moved-at-shutdown", fmt.Sprintf("end-run: %s was loaded %d times, failed to load %d times and was unloaded %d times; after shutdown the counters say %d, %d, %d", p, wt.loads, wt.errs, wt.unloads, g.Loads, g.Errs, g.Unloads)})
		}
	}
	return c, out
}

func appendList(list, elem string) string {
	if list == "[]" {
		return "[" + elem + "]"
	}
	return strings.TrimSuffix(list, "]") + "; " + elem + "]"
}

func coqECase(id uint64, e *endRun, c *ECase) string {
	w := e.h.w
	return progs.WithSharing(func() string {
		// the oracle tables: the generated programs through the reference
		// interpreter; the slow program by hand (it counts the slow line)
		var tops []progs.Op
		for _, o := range c.Case.Ops {
			if o.K == "load" && o.Prog == slowName {
				continue
			}
			tops = append(tops, o)
		}
		for _, b := range c.Burst {
			tops = append(tops, progs.Op{K: "line", Line: burstText(b)})
		}
		ct, vt := w.Tables(tops)
		if c.Slow {
			src := w.Srcs.ID(slowSource)
			ds, ok := progs.CompileDecls(slowName, slowSource)
			if !ok {
				panic("the slow program does not compile")
			}
			xs := make([]string, len(ds))
			for i, d := range ds {
				xs[i] = progs.CoqDecl(d)
			}
			ct = appendList(ct, fmt.Sprintf("(%s, %d, %s)", progs.B(slowName), src, vlib.Some(vlib.List(xs))))
			vt = appendList(vt, fmt.Sprintf("(%s, %d, %d, %s)", progs.B(slowName), src, w.LineID(slowLine),
				vlib.List([]string{progs.CoqEffect(progs.Effect{Op: "inc", M: 0, Ls: []string{}})})))
		}
		n := len(c.Case.Ops)
		var ls []string
		for i, b := range c.Burst[:c.Pushed] {
			ls = append(ls, coqCLine(w.LineID(burstText(b)), n+1+i))
		}
		ps := make([]string, len(c.Final.Progs))
		for i, p := range c.Final.Progs {
			ps[i] = fmt.Sprintf("(%s, (%d, %d, %d, %d))", progs.B(p.Prog), p.Loads, p.Errs, p.Unloads, p.RtErrs)
		}
		fl := c.Final.Lines
		if fl < 0 {
			fl = 0 // (reported by the oracle)
		}
		obs := vlib.App("mkoc", strconv.FormatInt(fl, 10), vlib.List(ps))
		return vlib.App("C25E", vlib.N(id), vlib.Bool(c.Case.Omit), ct, vt, w.CoqOps(c.Case.Ops), vlib.List(ls), obs)
	})
}

// ---------------------------------------------------------------------------

func replayEnd(path, kind, class string) {
	var fs []finding
	if kind == "end-exact" {
		var v struct {
			Case struct {
				Case DCase `json:"case"`
			} `json:"case"`
		}
		vlib.ReadJSON(path, &v)
		c := v.Case.Case
		fmt.Printf("replay %s: the fan-out loop over stand-in programs %v, %d lines, scheduler seed %d\n", path, c.Names, c.NLines, c.Seed)
		fmt.Printf("  recorded interleaving:")
		for _, a := range c.Acts {
			switch a.K {
			case "send":
				fmt.Printf(" send(%d)", a.L)
			case "hand", "finish":
				fmt.Printf(" %s(%s)", a.K, a.P)
			default:
				fmt.Printf(" %s", a.K)
			}
		}
		fmt.Println()
		// the loader's own choices (map order) may differ: try a few times
		for i := 0; i < 5 && len(fs) == 0; i++ {
			fs = runExact(&c)
		}
	} else {
		var v struct {
			Case struct {
				Case ECase `json:"case"`
			} `json:"case"`
		}
		vlib.ReadJSON(path, &v)
		c := v.Case.Case
		calibrateSlow()
		e := genEnd(c.Seed)
		fmt.Printf("replay %s: end of a run, generator seed %d: %d prefix steps, burst %q, channel closed %d us after the last send\n", path, c.Seed, len(e.h.ops), e.burst, e.delay)
		for i, s := range e.h.w.Srcs.Texts {
			fmt.Printf("--- source %d\n%s", i, s)
		}
		// the position of the close relative to the fan-out is a matter of timing
		for i := 0; i < 10 && len(fs) == 0; i++ {
			_, fs = runEnd(e)
		}
	}
	fail := false
	for _, f := range fs {
		fmt.Printf("%s: %s\n", f.class, f.what)
		if f.class == class {
			fail = true
		}
	}
	if fail {
		fmt.Println("FAILS: " + class)
		os.Exit(1)
	}
	fmt.Println("holds")
}
