//go:build verif

package main

// Histories of program-directory scans (LoadAllPrograms on a real directory)
// for the load / load-error / unload counters: programs that never compiled
// are removed, hidden, replaced by a directory or repaired; running programs
// are edited, broken, removed and brought back.

import (
	"sort"
	"strings"

	"github.com/google/mtail/internal/zzverif/progs"
	"github.com/google/mtail/internal/zzverif/vlib"
)

func eligible(e progs.DirEnt) bool {
	return !e.Dir && strings.HasSuffix(e.Name, ".mtail") && !strings.HasPrefix(e.Name, ".")
}

func genScanHistory(r *vlib.Rand) hist {
	w := progs.NewWorld()
	o := progs.GenOpts{Hidden: true, MaxDecls: 2, Names: []string{"x", "y", "z"}}
	h := hist{w: w}
	good := progs.Gen(r, o)
	bad := progs.Edit(r, progs.Gen(r, o), "syntax-error", o)
	dir := map[string]progs.DirEnt{}
	put := func(name string, p *progs.Prog) { dir[name] = progs.DirEnt{Name: name, Src: w.Src(p)} }
	put("p.mtail", good)
	put("b.mtail", bad) // has never compiled
	if r.Chance(50) {
		put("notes.txt", good)
	}
	scan := func() {
		var l []progs.DirEnt
		for _, e := range dir {
			l = append(l, e)
		}
		sort.Slice(l, func(i, j int) bool { return l[i].Name < l[j].Name })
		h.ops = append(h.ops, progs.Op{K: "scan", Dir: l})
	}
	line := func() { h.ops = append(h.ops, progs.Op{K: "line", Line: progs.RandLine(r)}) }
	scan()
	line()
	for i, n := 0, 3+r.Intn(5); i < n; i++ {
		name := vlib.Pick(r, []string{"b.mtail", "b.mtail", "p.mtail", "c.mtail"})
		switch r.Intn(7) {
		case 0: // gone
			delete(dir, name)
		case 1: // hidden: no longer eligible
			if e, ok := dir[name]; ok && !e.Dir {
				delete(dir, name)
				e.Name = "." + name
				dir[e.Name] = e
			}
		case 2: // a directory takes the name
			dir[name] = progs.DirEnt{Name: name, Dir: true}
		case 3: // (re)written with contents that do not compile
			put(name, progs.Edit(r, progs.Gen(r, o), "syntax-error", o))
		case 4: // (re)written with contents that compile
			put(name, progs.Gen(r, o))
		case 5: // renamed to a name without the extension
			if e, ok := dir[name]; ok && !e.Dir {
				delete(dir, name)
				e.Name = strings.TrimSuffix(name, ".mtail") + ".txt"
				dir[e.Name] = e
			}
		case 6: // scanned again unchanged
		}
		scan()
		if r.Chance(60) {
			line()
		}
	}
	return h
}

// scanEvents: the load / load-error / unload events of one scan, from the
// listing and the snapshots before and after it (independent of the model):
// an eligible file whose contents differ from its running version is a load
// attempt - a load if those contents run afterwards, a load error otherwise;
// a program that was running and has no eligible file any more is an unload.
// A name that was never running has no unload event.
func scanEvents(op progs.Op, prev, cur progs.Snap, get func(string) *tally, kinds map[string]bool) {
	running := func(s progs.Snap, p string) *progs.HSnap {
		for j := range s.Handles {
			if s.Handles[j].Prog == p {
				return &s.Handles[j]
			}
		}
		return nil
	}
	listed := map[string]bool{}
	for _, e := range op.Dir {
		if !eligible(e) {
			continue
		}
		listed[e.Name] = true
		old := running(prev, e.Name)
		if old != nil && old.Src == e.Src {
			continue
		}
		if now := running(cur, e.Name); now != nil && now.Src == e.Src {
			get(e.Name).loads++
		} else {
			get(e.Name).errs++
			kinds["scan-load-error"] = true
		}
	}
	for _, hs := range prev.Handles {
		if !listed[hs.Prog] {
			get(hs.Prog).unloads++
			kinds["scan-unload"] = true
		}
	}
}
