//go:build verif

// c23: formatting a program preserves its meaning.
//
// Oracle (Go only): for every generated program the checker accepts, exactly
// what cmd/mfmt does - Parse, Check, Unparse - then the output is parsed again
// and compared structurally with the parse of the original (declarations with
// kind, name, hidden, exported name, keys, limit, buckets; statement structure;
// expression trees; patterns; strings; expiry), and formatted a second time and
// compared textually.
//
// Correspondence (Coq): every expression statement and condition of the
// program, as the real parser built it, with the tokens of the real Unparser's
// output for it and the tokens of its original source text: Lang/Unparse.unparse
// must print the formatter's tokens and Lang/Grammar.parse must rebuild the tree
// from both token lists.
package main

import (
	"bytes"
	"fmt"
	"math"
	"os"
	"sort"
	"strconv"
	"strings"
	"time"

	"github.com/google/mtail/internal/metrics"
	"github.com/google/mtail/internal/runtime/compiler/ast"
	"github.com/google/mtail/internal/runtime/compiler/checker"
	"github.com/google/mtail/internal/runtime/compiler/parser"
	"github.com/google/mtail/internal/zzverif/vlib"
)

// ---------------------------------------------------------------- generator

// independent precedence table (from the language reference, not from unparser.go)
var opPrec = map[string]int{
	"||": 1, "&&": 1, "=~": 2, "!~": 2, "&": 3, "|": 3, "^": 3,
	"<": 4, ">": 4, "<=": 4, ">=": 4, "==": 4, "!=": 4, "<<": 5, ">>": 5,
	"+": 6, "-": 6, "*": 7, "/": 7, "%": 7, "**": 7,
}

const (
	pUnary   = 8
	pPostfix = 9
	pPrimary = 10
)

// every word the lexer does not give back as ID: parser.Dictionary() = keywords and builtins
var reservedWords = func() []string {
	w := parser.Dictionary()
	sort.Strings(w)
	return w
}()

type gen struct {
	rng   *vlib.Rand
	decls []string // declaration lines in order
	exprs []string // expression statements and conditions in pre-order
	feats map[string]bool
	flags genFlags
}

type genFlags struct {
	parens, hidden, buckets, quotes, floats, smallDur, qkeys bool
}

type ex struct {
	s string
	p int
}

// operand places child where a level of at least min is required
func (g *gen) operand(c ex, min int) string {
	if c.p < min {
		if g.flags.parens {
			g.feats["needed-parens"] = true
			return "(" + c.s + ")"
		}
		return "" // caller retries
	}
	if c.p < pPrimary && g.rng.Chance(15) {
		g.feats["redundant-parens"] = true
		return "(" + c.s + ")"
	}
	return c.s
}

func (g *gen) bin(op string, l, r ex) (ex, bool) {
	p := opPrec[op]
	lmin, rmin := p, p+1
	if p == 2 {
		lmin, rmin = pPrimary, pPrimary
	}
	ls, rs := g.operand(l, lmin), g.operand(r, rmin)
	if ls == "" || rs == "" {
		return ex{}, false
	}
	nl := ""
	if g.rng.Chance(5) {
		nl = "\n    " // opt_nl after an operator
	}
	return ex{ls + " " + op + " " + nl + rs, p}, true
}

var intOps = []string{"+", "-", "*", "/", "%", "**", "<<", ">>", "&", "|", "^"}
var numOps = []string{"+", "-", "*", "/", "**"}
var relOps = []string{"<", ">", "<=", ">=", "==", "!="}

func (g *gen) intAtom() ex {
	switch g.rng.Intn(9) {
	case 0:
		return ex{"$n", pPrimary}
	case 1:
		return ex{strconv.Itoa(g.rng.Intn(100)), pPrimary}
	case 2:
		return ex{"-" + strconv.Itoa(1+g.rng.Intn(9)), pPrimary}
	case 3:
		return ex{"c", pPrimary}
	case 4:
		return ex{"g[$s]", pPrimary}
	case 5:
		return ex{"strtol($s, 16)", pPrimary}
	case 6:
		return ex{"len($s)", pPrimary}
	case 7:
		return ex{"timestamp()", pPrimary}
	default:
		return ex{"int($x)", pPrimary}
	}
}

func (g *gen) intExpr(d int) ex {
	for {
		if d == 0 || g.rng.Chance(30) {
			return g.intAtom()
		}
		if g.rng.Chance(12) {
			c := g.intExpr(d - 1)
			if s := g.operand(c, pUnary); s != "" {
				return ex{"~" + s, pUnary}
			}
			continue
		}
		if e, ok := g.bin(vlib.Pick(g.rng, intOps), g.intExpr(d-1), g.intExpr(d-1)); ok {
			return e
		}
	}
}

func (g *gen) numExpr(d int) ex {
	for {
		if d == 0 || g.rng.Chance(25) {
			if g.rng.Chance(50) {
				return g.intAtom()
			}
			switch g.rng.Intn(5) {
			case 0:
				return ex{"$x", pPrimary}
			case 1:
				if g.flags.floats {
					g.feats["integral-float"] = true
					return ex{strconv.Itoa(g.rng.Intn(20)) + ".0", pPrimary}
				}
				return ex{"2.5", pPrimary}
			case 2:
				// fractions, exponents, and whole values on both sides of 1e6 and 1e21
				// (where shortest formatting switches to exponent notation)
				return ex{vlib.Pick(g.rng, []string{"1.5e3", "0.25", "1e-7", "3.14159", "-0.5", "1e100", "999999.0",
					"1000000.0", "2.5e6", "1e21", "-3e7", "123456789.0", "1234567.5", "0.00001", "1E6", "5e-324", "1.7976931348623157e308"}), pPrimary}
			case 3:
				return ex{"float($n)", pPrimary}
			default:
				return ex{"f", pPrimary}
			}
		}
		l, r := g.numExpr(d-1), g.numExpr(d-1)
		if g.rng.Chance(40) {
			l = g.intExpr(d - 1)
		}
		if e, ok := g.bin(vlib.Pick(g.rng, numOps), l, r); ok {
			return e
		}
	}
}

var regexes = []string{`/a+/`, `/^x\d$/`, `/b\/c/`, `/[a-z]{2}/`, `/\\w/`, `/"q"/`}

func (g *gen) cond(d int) ex {
	for {
		switch k := g.rng.Intn(10); {
		case d == 0 || k < 4:
			if e, ok := g.bin(vlib.Pick(g.rng, relOps), g.numExpr(2), g.numExpr(2)); ok {
				return e
			}
		case k < 6:
			op := vlib.Pick(g.rng, []string{"=~", "!~"})
			rhs := g.regex()
			for g.rng.Chance(30) { // a pattern concatenation as the right operand
				g.feats["match-concat"] = true
				rhs += " + " + vlib.Pick(g.rng, []string{"Q", g.regex()})
			}
			if g.rng.Chance(25) {
				// a right operand that is not a pattern: the checker converts it into
				// one; a compound one keeps its parentheses (both operands of a match
				// are primaries in the grammar)
				g.feats["match-string-operand"] = true
				rhs = vlib.Pick(g.rng, []string{`"a+"`, `("ab" + "cd")`, `("x" + "\\d" + "y")`, `("q" + "r")`})
			}
			return ex{"$s " + op + " " + rhs, 2}
		default:
			if e, ok := g.bin(vlib.Pick(g.rng, []string{"&&", "||"}), g.cond(d-1), g.cond(d-1)); ok {
				return e
			}
		}
	}
}

var strBodies = []string{`plain`, ``, `two words`, `tab\tx`, `nl\n`, `uni é 変`, `back\\slash`, `a\\\\b`, `pct %d`}
var quoteBodies = []string{`a\"b`, `\"`, `say \"hi\" \\ there`, `x\\\"y`}

var strPieces = []string{"a", "b c", "\\\"", "\\\\", "\\n", "\\t", "é", "/", "%", "'", "\\x", "0", "変", "{}", "\\\\\\\""}
var rePieces = []string{"a", "b+", "\\/", "\\d", "[a-z]", "\\\\", "\"", "(x)", "\\.", "é", "\\w*", "x|y", "\\s"}

func (g *gen) randLit(pieces []string) string {
	var b strings.Builder
	n := 1 + g.rng.Intn(5)
	for i := 0; i < n; i++ {
		b.WriteString(vlib.Pick(g.rng, pieces))
	}
	return b.String()
}

func (g *gen) regex() string {
	if g.rng.Chance(50) {
		return "/" + g.randLit(rePieces) + "/"
	}
	return vlib.Pick(g.rng, regexes)
}

func (g *gen) str() string {
	if g.flags.quotes && g.rng.Chance(40) {
		g.feats["string-with-quote"] = true
		return `"` + g.randLit(strPieces) + `"`
	}
	if g.flags.quotes && g.rng.Chance(60) {
		g.feats["string-with-quote"] = true
		return `"` + vlib.Pick(g.rng, quoteBodies) + `"`
	}
	return `"` + vlib.Pick(g.rng, strBodies) + `"`
}

func (g *gen) stmts(b *strings.Builder, ind string, d int, inDef bool) {
	n := 1 + g.rng.Intn(3)
	for i := 0; i < n; i++ {
		switch k := g.rng.Intn(14); {
		case k == 0:
			g.emit(b, ind, "c++")
		case k == 1:
			g.emit(b, ind, "c += "+g.intExpr(3).s)
		case k == 2:
			g.emit(b, ind, "g[$s] = "+g.intExpr(3).s)
		case k == 3:
			g.emit(b, ind, "f = "+g.numExpr(3).s)
		case k == 4:
			g.emit(b, ind, "t = "+g.str())
		case k == 5:
			g.emit(b, ind, "h[$s] = "+g.numExpr(2).s)
		case k == 6:
			g.emit(b, ind, "g[$s]++")
		case k == 7:
			dur := vlib.Pick(g.rng, []string{"", " after 1h", " after 30m", " after 1h30m", " after 100ms", " after 0.5s", " after 90s",
				// durations whose canonical spelling is compound with a fraction in a
				// later unit (1m30.5s, 1m1.001s, 1h0m1.8s, 2h45m30.5s), or a long one
				" after 90.5s", " after 61001ms", " after 1.0005h", " after 9930.5s", " after 100000h", " after 1.5ms"})
			if g.flags.smallDur && g.rng.Chance(60) {
				dur = vlib.Pick(g.rng, []string{" after 0.000001s", " after 0.0000015s", " after 1.0000005s"})
				g.feats["sub-millisecond-expiry"] = true
			}
			b.WriteString(ind + "del g[$s]" + dur + "\n")
		case k == 8 && inDef:
			b.WriteString(ind + "next\n")
		case k == 9 && d > 0:
			c := g.cond(2)
			g.exprs = append(g.exprs, c.s)
			b.WriteString(ind + c.s + " {\n")
			if !g.rng.Chance(12) { // sometimes an empty block
				g.stmts(b, ind+"  ", d-1, inDef)
			} else {
				g.feats["empty-block"] = true
			}
			if g.rng.Chance(40) {
				b.WriteString(ind + "} else {\n")
				if !g.rng.Chance(20) {
					g.stmts(b, ind+"  ", d-1, inDef)
				} else {
					g.feats["empty-else"] = true
				}
			}
			b.WriteString(ind + "}\n")
		case k == 10 && d > 0:
			// a pattern condition, alone or with a logical tail
			re := g.regex()
			c := re
			if g.rng.Chance(50) {
				t := g.cond(1)
				op := vlib.Pick(g.rng, []string{"&&", "||"})
				ts := g.operand(t, 2)
				if ts == "" {
					ts = "1 > 0"
				}
				c = re + " " + op + " " + ts
			}
			g.exprs = append(g.exprs, c)
			b.WriteString(ind + c + " {\n")
			g.stmts(b, ind+"  ", d-1, inDef)
			b.WriteString(ind + "}\n")
		case k == 11 && d > 0 && i == n-1:
			b.WriteString(ind + "otherwise {\n")
			g.stmts(b, ind+"  ", d-1, inDef)
			b.WriteString(ind + "}\n")
		case k == 12:
			g.emit(b, ind, "tm = "+g.numExpr(1).s)
		default:
			g.emit(b, ind, "c += 1")
		}
	}
}

func (g *gen) emit(b *strings.Builder, ind, s string) {
	g.exprs = append(g.exprs, s)
	b.WriteString(ind + s + "\n")
}

// program generates one program; the flags choose which constructs with a
// (formerly) lossy formatting may appear
func genProgram(rng *vlib.Rand, fl genFlags) (string, []string, []string, map[string]bool) {
	g := &gen{rng: rng, feats: map[string]bool{}, flags: fl}
	var b strings.Builder
	hid := func() string {
		if fl.hidden && rng.Chance(50) {
			g.feats["hidden"] = true
			return "hidden "
		}
		return ""
	}
	as := func(n string) string {
		if fl.hidden && rng.Chance(50) {
			g.feats["as"] = true
			return " as \"" + n + "\""
		}
		return ""
	}
	b.WriteString(hid() + "counter c" + as("c_total") + "\n")
	key := "k"
	if fl.qkeys && rng.Chance(50) {
		// keys that are not identifiers of the lexer (a space, a leading digit, a
		// dash, letter-like and number-like runes that are not letters or decimal
		// digits: superscripts, fractions, roman numerals, combining marks)
		key = "\"" + vlib.Pick(rng, []string{"k 1", "k 1", "9k", "a-b", "m²", "x½", "stageⅣ", "é́", "k.v", "naïve"}) + "\""
		g.feats["quoted-key"] = true
	} else if fl.qkeys && rng.Chance(50) {
		// a key spelled like a builtin or a keyword has to stay quoted
		key = "\"" + vlib.Pick(rng, reservedWords) + "\""
		g.feats["reserved-word-key"] = true
	}
	lim := ""
	if rng.Chance(30) {
		lim = " limit " + strconv.Itoa(1+rng.Intn(50))
	} else if fl.qkeys && rng.Chance(20) {
		lim = " limit -" + strconv.Itoa(1+rng.Intn(5))
		g.feats["negative-limit"] = true
	}
	b.WriteString(hid() + "gauge g by " + key + lim + as("g:x") + "\n")
	b.WriteString(hid() + "gauge f\n")
	b.WriteString("text t\n")
	b.WriteString("timer tm\n")
	bk := "0, 1, 2.5, 10"
	if fl.buckets {
		bk = vlib.Pick(rng, []string{"0.0000001, 0.001, 1", "1e-9, 5e-7, 0.25", "0.00000025, 100, 1e6",
			// whole-number boundaries beyond int64 (a bare digit string would lex as an
			// integer literal and fail to parse), the largest and smallest float64
			"0, 1e9, 1e19, 1e20", "9223372036854775807, 9223372036854775808, 18446744073709551616",
			"5e-324, 1, 1.7976931348623157e308", "1000000, 2500000, 1e21, 1e22"})
		g.feats["small-buckets"] = true
	}
	b.WriteString("histogram h buckets " + bk + " by k\n")
	b.WriteString("const P /(?P<n>\\d+) /\n")
	b.WriteString("const Q /q+/\n")
	useDef := rng.Chance(50)
	if useDef {
		b.WriteString("def deco {\n  /^y/ {\n")
		g.exprs = append(g.exprs, "/^y/")
		g.stmtsDef(&b)
		b.WriteString("  }\n}\n")
	}
	nb := 1 + rng.Intn(3)
	for i := 0; i < nb; i++ {
		head := "/(?P<s>\\w+) / + P + /(?P<x>\\d+\\.\\d+)/"
		if i > 0 {
			head = "/^(?P<s>\\w+) (?P<n>\\d+) (?P<x>\\d+\\.\\d+)$/"
			g.exprs = append(g.exprs, head)
		}
		if useDef && i == 0 {
			b.WriteString("@deco {\n")
			b.WriteString("  " + head + " {\n")
			g.stmts(&b, "    ", 2, false)
			b.WriteString("  }\n}\n")
		} else {
			b.WriteString(head + " {\n")
			g.stmts(&b, "  ", 2, false)
			b.WriteString("}\n")
		}
	}
	// every declaration must be used, or the checker rejects the program
	useHead := "/^use (?P<s>\\w+) (?P<n>\\d+) (?P<x>\\d+\\.\\d+)$/"
	g.exprs = append(g.exprs, useHead)
	b.WriteString(useHead + " {\n")
	for _, st := range []string{"c++", "g[$s] = $n", "f = $x", "t = $s", "tm = $n", "h[$s] = $x"} {
		g.emit(&b, "  ", st)
	}
	g.exprs = append(g.exprs, "$s !~ /z/ + Q + /w/")
	b.WriteString("  $s !~ /z/ + Q + /w/ {\n")
	g.emit(&b, "    ", "c++")
	b.WriteString("  }\n}\n")
	if !strings.Contains(b.String(), "P +") {
		b.WriteString("/q / + P {\n  c++\n}\n")
		g.exprs = append(g.exprs, "c++")
	}
	for _, ln := range strings.Split(b.String(), "\n") {
		f := strings.Fields(ln)
		if len(f) > 1 && (f[0] == "hidden" || f[0] == "counter" || f[0] == "gauge" || f[0] == "text" || f[0] == "timer" || f[0] == "histogram") {
			g.decls = append(g.decls, ln)
		}
	}
	return b.String(), g.exprs, g.decls, g.feats
}

func (g *gen) stmtsDef(b *strings.Builder) {
	b.WriteString("    next\n")
}

// ---------------------------------------------------------------- canonical AST

func canon(n ast.Node, b *strings.Builder) {
	if n == nil {
		b.WriteString("nil")
		return
	}
	switch v := n.(type) {
	case *ast.StmtList:
		b.WriteString("(stmts")
		for _, c := range v.Children {
			b.WriteByte(' ')
			canon(c, b)
		}
		b.WriteByte(')')
	case *ast.ExprList:
		b.WriteString("(exprs")
		for _, c := range v.Children {
			b.WriteByte(' ')
			canon(c, b)
		}
		b.WriteByte(')')
	case *ast.CondStmt:
		b.WriteString("(cond ")
		canon(v.Cond, b)
		b.WriteByte(' ')
		canon(v.Truth, b)
		b.WriteByte(' ')
		canon(v.Else, b)
		b.WriteByte(')')
	case *ast.IDTerm:
		fmt.Fprintf(b, "(id %q)", v.Name)
	case *ast.CaprefTerm:
		fmt.Fprintf(b, "(capref %q %v)", v.Name, v.IsNamed)
	case *ast.BuiltinExpr:
		fmt.Fprintf(b, "(call %q ", v.Name)
		canon(v.Args, b)
		b.WriteByte(')')
	case *ast.BinaryExpr:
		fmt.Fprintf(b, "(bin %s ", parser.Kind(v.Op))
		canon(v.LHS, b)
		b.WriteByte(' ')
		canon(v.RHS, b)
		b.WriteByte(')')
	case *ast.UnaryExpr:
		fmt.Fprintf(b, "(un %s ", parser.Kind(v.Op))
		canon(v.Expr, b)
		b.WriteByte(')')
	case *ast.IndexedExpr:
		b.WriteString("(index ")
		canon(v.LHS, b)
		b.WriteByte(' ')
		canon(v.Index, b)
		b.WriteByte(')')
	case *ast.VarDecl:
		bs := []string{}
		for _, f := range v.Buckets {
			bs = append(bs, fmt.Sprintf("%016x", math.Float64bits(f)))
		}
		fmt.Fprintf(b, "(decl kind=%v name=%q hidden=%v keys=%q limit=%d buckets=%v as=%q)",
			v.Kind, v.Name, v.Hidden, v.Keys, v.Limit, bs, v.ExportedName)
	case *ast.StringLit:
		fmt.Fprintf(b, "(str %q)", v.Text)
	case *ast.IntLit:
		fmt.Fprintf(b, "(int %d)", v.I)
	case *ast.FloatLit:
		fmt.Fprintf(b, "(float %016x)", math.Float64bits(v.F))
	case *ast.PatternExpr:
		b.WriteString("(pattern ")
		canon(v.Expr, b)
		b.WriteByte(')')
	case *ast.PatternLit:
		fmt.Fprintf(b, "(regex %q)", v.Pattern)
	case *ast.PatternFragment:
		b.WriteString("(const ")
		canon(v.ID, b)
		b.WriteByte(' ')
		canon(v.Expr, b)
		b.WriteByte(')')
	case *ast.DecoDecl:
		fmt.Fprintf(b, "(def %q ", v.Name)
		canon(v.Block, b)
		b.WriteByte(')')
	case *ast.DecoStmt:
		fmt.Fprintf(b, "(deco %q ", v.Name)
		canon(v.Block, b)
		b.WriteByte(')')
	case *ast.NextStmt:
		b.WriteString("(next)")
	case *ast.OtherwiseStmt:
		b.WriteString("(otherwise)")
	case *ast.StopStmt:
		b.WriteString("(stop)")
	case *ast.DelStmt:
		fmt.Fprintf(b, "(del %d ", int64(v.Expiry))
		canon(v.N, b)
		b.WriteByte(')')
	case *ast.ConvExpr:
		canon(v.N, b)
	default:
		fmt.Fprintf(b, "(unknown %T)", n)
	}
}

func canonStr(n ast.Node) string {
	var b strings.Builder
	canon(n, &b)
	return b.String()
}

// firstDiff classifies the first structural difference of two canonical dumps
func classify(a, b string) string {
	i := 0
	for i < len(a) && i < len(b) && a[i] == b[i] {
		i++
	}
	// the enclosing "(tag" of the difference
	j := strings.LastIndex(a[:i], "(")
	tag := ""
	if j >= 0 {
		tag = strings.FieldsFunc(a[j+1:]+" ", func(r rune) bool { return r == ' ' || r == ')' })[0]
	}
	rest := a[i:]
	switch {
	case tag == "decl":
		seg := a[j:i]
		// the fields are dumped in this order; the difference is in the last one reached
		for _, f := range []string{"as", "buckets", "limit", "keys", "hidden", "name", "kind"} {
			if strings.Contains(seg, f+"=") {
				switch f {
				case "hidden":
					return "decl-hidden-lost"
				case "as":
					return "decl-exported-name-lost"
				}
				return "decl-" + f + "-changed"
			}
		}
		return "decl-changed"
	case tag == "float" || strings.HasPrefix(rest, "float") || (tag == "" && strings.Contains(a[max(0, i-6):i], "(")) && strings.HasPrefix(a[i:], "float"):
		return "float-literal-becomes-int"
	case tag == "bin" || tag == "un" || tag == "index" || tag == "exprs" || tag == "call":
		if strings.Contains(a[max(0, i-7):min(len(a), i+6)], "float") {
			return "float-literal-becomes-int"
		}
		return "expression-tree-regrouped"
	case tag == "del":
		return "del-expiry-changed"
	case tag == "str":
		return "string-literal-changed"
	case tag == "regex":
		return "pattern-changed"
	}
	if strings.Contains(a[max(0, i-7):min(len(a), i+6)], "float") {
		return "float-literal-becomes-int"
	}
	return "ast-differs-at-" + tag
}

// ---------------------------------------------------------------- mfmt pipeline

func format(src string) (out string, err error) {
	defer func() {
		if r := recover(); r != nil {
			err = fmt.Errorf("panic: %v", r)
		}
	}()
	a, err := parser.Parse("p", strings.NewReader(src))
	if err != nil {
		return "", fmt.Errorf("parse: %v", err)
	}
	a, err = checker.Check(a, 0, 0)
	if err != nil {
		return "", fmt.Errorf("check: %v", err)
	}
	u := parser.Unparser{}
	return u.Unparse(a), nil
}

// ---------------------------------------------------------------- Coq terms

var binNames = map[int]string{
	parser.AND: "OAnd", parser.OR: "OOr", parser.MATCH: "OMatch", parser.NOT_MATCH: "ONotMatch",
	parser.BITAND: "OBitAnd", parser.BITOR: "OBitOr", parser.XOR: "OXor", parser.LT: "OLt", parser.GT: "OGt",
	parser.LE: "OLe", parser.GE: "OGe", parser.EQ: "OEq", parser.NE: "ONe", parser.SHL: "OShl",
	parser.SHR: "OShr", parser.PLUS: "OPlus", parser.MINUS: "OMinus", parser.MUL: "OMul",
	parser.DIV: "ODiv", parser.MOD: "OMod", parser.POW: "OPow",
}

func coqExprs(n ast.Node) (string, bool) {
	if n == nil {
		return "ENil", true
	}
	l, ok := n.(*ast.ExprList)
	if !ok {
		return "", false
	}
	s := "ENil"
	for i := len(l.Children) - 1; i >= 0; i-- {
		e, ok := coqExpr(l.Children[i])
		if !ok {
			return "", false
		}
		s = "(ECons " + e + " " + s + ")"
	}
	return s, true
}

func coqExpr(n ast.Node) (string, bool) {
	switch v := n.(type) {
	case *ast.ConvExpr:
		return coqExpr(v.N)
	case *ast.PatternExpr:
		if _, ok := v.Expr.(*ast.BinaryExpr); ok {
			return coqConcat(v.Expr) // pattern concatenation: a `+` tree over regex literals and const names
		}
		return coqExpr(v.Expr)
	case *ast.PatternLit:
		return "(Atom (ARegex " + vlib.Bytes(v.Pattern) + "))", true
	case *ast.IntLit:
		return "(Atom (AInt " + vlib.Z(v.I) + "))", true
	case *ast.FloatLit:
		return "(Atom (AFloat " + vlib.N(math.Float64bits(v.F)) + "))", true
	case *ast.StringLit:
		return "(Atom (AStr " + vlib.Bytes(v.Text) + "))", true
	case *ast.CaprefTerm:
		return "(Atom (ACapref " + vlib.Bool(v.IsNamed) + " " + vlib.Bytes(v.Name) + "))", true
	case *ast.IndexedExpr:
		id, ok := v.LHS.(*ast.IDTerm)
		if !ok {
			return "", false
		}
		idx, ok := coqExprs(v.Index)
		if !ok {
			return "", false
		}
		return "(Id " + vlib.Bytes(id.Name) + " " + idx + ")", true
	case *ast.BuiltinExpr:
		args, ok := coqExprs(v.Args)
		if !ok {
			return "", false
		}
		return "(Call " + vlib.Bytes(v.Name) + " " + args + ")", true
	case *ast.BinaryExpr:
		o, ok := binNames[v.Op]
		if !ok {
			return "", false
		}
		l, ok1 := coqExpr(v.LHS)
		r, ok2 := coqExpr(v.RHS)
		if !ok1 || !ok2 {
			return "", false
		}
		return "(Bin " + o + " " + l + " " + r + ")", true
	case *ast.UnaryExpr:
		e, ok := coqExpr(v.Expr)
		if !ok {
			return "", false
		}
		switch v.Op {
		case parser.NOT:
			return "(Not " + e + ")", true
		case parser.INC:
			return "(Post true " + e + ")", true
		case parser.DEC:
			return "(Post false " + e + ")", true
		case parser.MATCH:
			return e, true
		}
	}
	return "", false
}

func coqStmt(n ast.Node) (string, bool) {
	if b, ok := n.(*ast.BinaryExpr); ok && (b.Op == parser.ASSIGN || b.Op == parser.ADD_ASSIGN) {
		l, ok1 := coqExpr(b.LHS)
		r, ok2 := coqExpr(b.RHS)
		if !ok1 || !ok2 {
			return "", false
		}
		return "(SAssign " + vlib.Bool(b.Op == parser.ADD_ASSIGN) + " " + l + " " + r + ")", true
	}
	e, ok := coqExpr(n)
	if !ok {
		return "", false
	}
	return "(SExpr " + e + ")", true
}

func coqDecl(v *ast.VarDecl) string {
	bs := make([]string, len(v.Buckets))
	for i, f := range v.Buckets {
		bs[i] = vlib.N(math.Float64bits(f))
	}
	return vlib.App("mk_decl", vlib.Bool(v.Hidden), vlib.N(uint64(v.Kind)), vlib.Bytes(v.Name), vlib.Tuple(v.Keys),
		vlib.Z(v.Limit), vlib.List(bs), vlib.Bytes(v.ExportedName))
}

// declTokens lexes one declaration with the real lexer into UnparseDecl.dtk terms
func declTokens(text string) (string, bool) {
	l := parser.NewLexer("d", bytes.NewReader([]byte(text)))
	var out []string
	ctx := "" // last attribute keyword
	for n := 0; n < 4*len(text)+8; n++ {
		t := l.NextToken()
		switch t.Kind {
		case parser.EOF:
			return vlib.List(out), true
		case parser.NL:
		case parser.HIDDEN:
			out = append(out, "DHidden")
		case parser.COUNTER, parser.GAUGE, parser.TIMER, parser.TEXT, parser.HISTOGRAM:
			out = append(out, "DKind "+strconv.Itoa(int(declKind(t.Kind))))
		case parser.BY:
			out, ctx = append(out, "DBy"), "by"
		case parser.AS:
			out, ctx = append(out, "DAs"), "as"
		case parser.LIMIT:
			out, ctx = append(out, "DLimit"), "limit"
		case parser.BUCKETS:
			out, ctx = append(out, "DBuckets"), "buckets"
		case parser.COMMA:
			out = append(out, "DComma")
		case parser.ID:
			out = append(out, "DName "+vlib.Bytes(t.Spelling))
		case parser.STRING:
			if ctx == "as" {
				out = append(out, "DStr "+vlib.Bytes(t.Spelling))
			} else {
				out = append(out, "DName "+vlib.Bytes(t.Spelling))
			}
		case parser.INTLITERAL:
			i, err := strconv.ParseInt(t.Spelling, 10, 64)
			if err != nil {
				return "", false
			}
			if ctx == "limit" {
				out = append(out, "DInt "+vlib.Z(i))
			} else {
				out = append(out, "DNum "+vlib.N(math.Float64bits(float64(i))))
			}
		case parser.FLOATLITERAL:
			f, err := strconv.ParseFloat(t.Spelling, 64)
			if err != nil {
				return "", false
			}
			out = append(out, "DNum "+vlib.N(math.Float64bits(f)))
		default:
			return "", false
		}
	}
	return "", false
}

func operandEnd(k parser.Kind) bool {
	switch k {
	case parser.ID, parser.INTLITERAL, parser.FLOATLITERAL, parser.STRING, parser.CAPREF,
		parser.CAPREF_NAMED, parser.RPAREN, parser.RSQUARE, parser.INC, parser.DEC:
		return true
	}
	return false
}

// tokens lexes an expression text with the real lexer (raising InRegex where
// the parser would: a DIV where an operand is expected) into Grammar.tk terms
func tokens(text string) (string, bool) {
	l := parser.NewLexer("e", bytes.NewReader([]byte(text)))
	var out []string
	prev := parser.Kind(parser.NL)
	for n := 0; n < 4*len(text)+8; n++ {
		t := l.NextToken()
		switch t.Kind {
		case parser.EOF:
			return vlib.List(out), true
		case parser.NL:
			continue
		case parser.DIV:
			if !operandEnd(prev) {
				l.InRegex = true
				re := l.NextToken()
				cl := l.NextToken()
				if re.Kind != parser.REGEX || cl.Kind != parser.DIV {
					return "", false
				}
				out = append(out, "TAtom (ARegex "+vlib.Bytes(re.Spelling)+")")
				prev = parser.STRING
				continue
			}
			out = append(out, "TOp ODiv")
		case parser.INTLITERAL:
			i, err := strconv.ParseInt(t.Spelling, 10, 64)
			if err != nil {
				return "", false
			}
			out = append(out, "TAtom (AInt "+vlib.Z(i)+")")
		case parser.FLOATLITERAL:
			f, err := strconv.ParseFloat(t.Spelling, 64)
			if err != nil {
				return "", false
			}
			out = append(out, "TAtom (AFloat "+vlib.N(math.Float64bits(f))+")")
		case parser.STRING:
			out = append(out, "TAtom (AStr "+vlib.Bytes(t.Spelling)+")")
		case parser.CAPREF:
			out = append(out, "TAtom (ACapref false "+vlib.Bytes(t.Spelling)+")")
		case parser.CAPREF_NAMED:
			out = append(out, "TAtom (ACapref true "+vlib.Bytes(t.Spelling)+")")
		case parser.ID:
			out = append(out, "TId "+vlib.Bytes(t.Spelling))
		case parser.BUILTIN:
			out = append(out, "TBuiltin "+vlib.Bytes(t.Spelling))
		case parser.NOT:
			out = append(out, "TNot")
		case parser.INC:
			out = append(out, "TPost true")
		case parser.DEC:
			out = append(out, "TPost false")
		case parser.ASSIGN:
			out = append(out, "TAssign false")
		case parser.ADD_ASSIGN:
			out = append(out, "TAssign true")
		case parser.LPAREN:
			out = append(out, "TLP")
		case parser.RPAREN:
			out = append(out, "TRP")
		case parser.LSQUARE:
			out = append(out, "TLB")
		case parser.RSQUARE:
			out = append(out, "TRB")
		case parser.COMMA:
			out = append(out, "TComma")
		default:
			o, ok := binNames[int(t.Kind)]
			if !ok {
				return "", false
			}
			out = append(out, "TOp "+o)
		}
		prev = t.Kind
	}
	return "", false
}

// litNodes calls f on every node of the tree
func litNodes(n ast.Node, f func(ast.Node)) {
	if n == nil {
		return
	}
	f(n)
	switch v := n.(type) {
	case *ast.StmtList:
		for _, c := range v.Children {
			litNodes(c, f)
		}
	case *ast.ExprList:
		for _, c := range v.Children {
			litNodes(c, f)
		}
	case *ast.CondStmt:
		litNodes(v.Cond, f)
		litNodes(v.Truth, f)
		if v.Else != nil {
			litNodes(v.Else, f)
		}
	case *ast.BuiltinExpr:
		if v.Args != nil {
			litNodes(v.Args, f)
		}
	case *ast.BinaryExpr:
		litNodes(v.LHS, f)
		litNodes(v.RHS, f)
	case *ast.UnaryExpr:
		litNodes(v.Expr, f)
	case *ast.IndexedExpr:
		litNodes(v.Index, f)
	case *ast.ConvExpr:
		litNodes(v.N, f)
	case *ast.PatternExpr:
		litNodes(v.Expr, f)
	case *ast.PatternFragment:
		litNodes(v.Expr, f)
	case *ast.DecoDecl:
		litNodes(v.Block, f)
	case *ast.DecoStmt:
		litNodes(v.Block, f)
	case *ast.DelStmt:
		litNodes(v.N, f)
	}
}

// exprNodes lists expression statements and conditions in the generator's order
func exprNodes(n ast.Node, acc *[]ast.Node) {
	switch v := n.(type) {
	case *ast.StmtList:
		for _, c := range v.Children {
			exprNodes(c, acc)
		}
	case *ast.CondStmt:
		if _, ok := v.Cond.(*ast.OtherwiseStmt); !ok && v.Cond != nil {
			*acc = append(*acc, v.Cond)
		}
		exprNodes(v.Truth, acc)
		if v.Else != nil {
			exprNodes(v.Else, acc)
		}
	case *ast.DecoDecl:
		exprNodes(v.Block, acc)
	case *ast.DecoStmt:
		exprNodes(v.Block, acc)
	case *ast.BinaryExpr, *ast.UnaryExpr, *ast.IndexedExpr, *ast.BuiltinExpr:
		*acc = append(*acc, n)
	}
}

// ---------------------------------------------------------------- whole programs

func coqBlock(n ast.Node) (string, bool) {
	sl, ok := n.(*ast.StmtList)
	if !ok {
		return "", false
	}
	s := "BNil"
	for i := len(sl.Children) - 1; i >= 0; i-- {
		st, ok := coqProgStmt(sl.Children[i])
		if !ok {
			return "", false
		}
		s = "(BCons " + st + " " + s + ")"
	}
	return s, true
}

func coqProgStmt(n ast.Node) (string, bool) {
	switch v := n.(type) {
	case *ast.VarDecl:
		return "(SDecl " + coqDecl(v) + ")", true
	case *ast.PatternFragment:
		id, ok := v.ID.(*ast.IDTerm)
		if !ok {
			return "", false
		}
		e, ok := coqConcat(v.Expr)
		if !ok {
			return "", false
		}
		return "(SConst " + vlib.Bytes(id.Name) + " " + e + ")", true
	case *ast.CondStmt:
		t, ok := coqBlock(v.Truth)
		if !ok {
			return "", false
		}
		if _, ok := v.Cond.(*ast.OtherwiseStmt); ok {
			if v.Else != nil {
				return "", false
			}
			return "(SOtherwise " + t + ")", true
		}
		c, ok := coqConcat(v.Cond)
		if !ok {
			return "", false
		}
		if v.Else == nil {
			return "(SIf " + c + " " + t + ")", true
		}
		e, ok := coqBlock(v.Else)
		if !ok {
			return "", false
		}
		return "(SIfElse " + c + " " + t + " " + e + ")", true
	case *ast.DecoDecl:
		b, ok := coqBlock(v.Block)
		if !ok {
			return "", false
		}
		return "(SDef " + vlib.Bytes(v.Name) + " " + b + ")", true
	case *ast.DecoStmt:
		b, ok := coqBlock(v.Block)
		if !ok {
			return "", false
		}
		return "(SDeco " + vlib.Bytes(v.Name) + " " + b + ")", true
	case *ast.NextStmt:
		return "SNext", true
	case *ast.StopStmt:
		return "SStop", true
	case *ast.DelStmt:
		e, ok := coqExpr(v.N)
		if !ok {
			return "", false
		}
		return "(SDel " + e + " " + vlib.Z(int64(v.Expiry)) + ")", true
	}
	st, ok := coqStmt(n)
	if !ok {
		return "", false
	}
	return "(SExprS " + st + ")", true
}

// coqConcat: an expression in which pattern concatenations are ordinary `+`
// trees (conditions, const bodies): /a/ + X is Bin OPlus (regex) (Id X) in the
// Go AST too, below transparent PatternExpr/MATCH wrappers
func coqConcat(n ast.Node) (string, bool) {
	switch v := n.(type) {
	case *ast.PatternExpr:
		return coqConcat(v.Expr)
	case *ast.UnaryExpr:
		if v.Op == parser.MATCH {
			return coqConcat(v.Expr)
		}
	case *ast.IDTerm:
		return "(Id " + vlib.Bytes(v.Name) + " ENil)", true
	case *ast.BinaryExpr:
		if o, ok := binNames[v.Op]; ok && (v.Op == parser.PLUS || v.Op == parser.AND || v.Op == parser.OR) {
			l, ok1 := coqConcat(v.LHS)
			r, ok2 := coqConcat(v.RHS)
			if ok1 && ok2 {
				return "(Bin " + o + " " + l + " " + r + ")", true
			}
			return "", false
		}
	}
	return coqExpr(n)
}

// progTokens lexes a whole program with the real lexer into Program.ptk terms.
// InRegex is raised where the parser would: at a DIV where an operand is expected
// (also right after `const ID`).  A newline directly after a binary operator or
// an assignment sign is the grammar's opt_nl and is dropped.
func progTokens(text string) (string, bool) {
	l := parser.NewLexer("p", bytes.NewReader([]byte(text)))
	var out []string
	prev, prev2 := parser.Kind(parser.NL), parser.Kind(parser.NL)
	inDecl, ctx := false, ""
	afterOp := false
	for n := 0; n < 4*len(text)+8; n++ {
		t := l.NextToken()
		k := t.Kind
		if k == parser.EOF {
			return vlib.List(out), true
		}
		wasOp := afterOp
		afterOp = false
		if inDecl {
			switch k {
			case parser.NL:
				inDecl = false
				out = append(out, "PNL")
			case parser.COUNTER, parser.GAUGE, parser.TIMER, parser.TEXT, parser.HISTOGRAM:
				out = append(out, "PD (DKind "+strconv.Itoa(int(declKind(k)))+")")
			case parser.BY:
				out, ctx = append(out, "PD DBy"), "by"
			case parser.AS:
				out, ctx = append(out, "PD DAs"), "as"
			case parser.LIMIT:
				out, ctx = append(out, "PD DLimit"), "limit"
			case parser.BUCKETS:
				out, ctx = append(out, "PD DBuckets"), "buckets"
			case parser.COMMA:
				out = append(out, "PD DComma")
			case parser.ID:
				out = append(out, "PD (DName "+vlib.Bytes(t.Spelling)+")")
			case parser.STRING:
				if ctx == "as" {
					out = append(out, "PD (DStr "+vlib.Bytes(t.Spelling)+")")
				} else {
					out = append(out, "PD (DName "+vlib.Bytes(t.Spelling)+")")
				}
			case parser.INTLITERAL:
				i, err := strconv.ParseInt(t.Spelling, 10, 64)
				if err != nil {
					return "", false
				}
				if ctx == "limit" {
					out = append(out, "PD (DInt "+vlib.Z(i)+")")
				} else {
					out = append(out, "PD (DNum "+vlib.N(math.Float64bits(float64(i)))+")")
				}
			case parser.FLOATLITERAL:
				f, err := strconv.ParseFloat(t.Spelling, 64)
				if err != nil {
					return "", false
				}
				out = append(out, "PD (DNum "+vlib.N(math.Float64bits(f))+")")
			default:
				return "", false
			}
			prev2, prev = prev, k
			continue
		}
		switch k {
		case parser.NL:
			if !wasOp {
				out = append(out, "PNL")
			} else {
				afterOp = false
			}
		case parser.HIDDEN:
			inDecl, ctx = true, ""
			out = append(out, "PD DHidden")
		case parser.COUNTER, parser.GAUGE, parser.TIMER, parser.TEXT, parser.HISTOGRAM:
			inDecl, ctx = true, ""
			out = append(out, "PD (DKind "+strconv.Itoa(int(declKind(k)))+")")
		case parser.LCURLY:
			out = append(out, "PLC")
		case parser.RCURLY:
			out = append(out, "PRC")
		case parser.ELSE:
			out = append(out, "PElse")
		case parser.OTHERWISE:
			out = append(out, "POtherwise")
		case parser.DEF:
			out = append(out, "PDef")
		case parser.DECO:
			out = append(out, "PDeco "+vlib.Bytes(t.Spelling))
		case parser.NEXT:
			out = append(out, "PNext")
		case parser.STOP:
			out = append(out, "PStop")
		case parser.DEL:
			out = append(out, "PDel")
		case parser.CONST:
			out = append(out, "PConst")
		case parser.AFTER:
			d := l.NextToken()
			if d.Kind != parser.DURATIONLITERAL {
				return "", false
			}
			dur, err := time.ParseDuration(d.Spelling)
			if err != nil {
				return "", false
			}
			out = append(out, "PAfter "+vlib.Z(int64(dur)))
			k = parser.DURATIONLITERAL
		case parser.DIV:
			if !operandEnd(prev) || (prev == parser.ID && prev2 == parser.CONST) {
				l.InRegex = true
				re := l.NextToken()
				cl := l.NextToken()
				if re.Kind != parser.REGEX || cl.Kind != parser.DIV {
					return "", false
				}
				out = append(out, "PE (TAtom (ARegex "+vlib.Bytes(re.Spelling)+"))")
				k = parser.STRING
			} else {
				out = append(out, "PE (TOp ODiv)")
				afterOp = true
			}
		default:
			e, ok := exprToken(t)
			if !ok {
				return "", false
			}
			out = append(out, "PE ("+e+")")
			if strings.HasPrefix(e, "TOp ") || strings.HasPrefix(e, "TAssign ") {
				afterOp = true
			}
			if k == parser.ID && prev == parser.CONST {
				afterOp = true // CONST id_expr opt_nl
			}
		}
		prev2, prev = prev, k
	}
	return "", false
}

// exprToken maps one lexer token (not DIV, not NL) to a Grammar.tk term
func exprToken(t parser.Token) (string, bool) {
	switch t.Kind {
	case parser.INTLITERAL:
		i, err := strconv.ParseInt(t.Spelling, 10, 64)
		if err != nil {
			return "", false
		}
		return "TAtom (AInt " + vlib.Z(i) + ")", true
	case parser.FLOATLITERAL:
		f, err := strconv.ParseFloat(t.Spelling, 64)
		if err != nil {
			return "", false
		}
		return "TAtom (AFloat " + vlib.N(math.Float64bits(f)) + ")", true
	case parser.STRING:
		return "TAtom (AStr " + vlib.Bytes(t.Spelling) + ")", true
	case parser.CAPREF:
		return "TAtom (ACapref false " + vlib.Bytes(t.Spelling) + ")", true
	case parser.CAPREF_NAMED:
		return "TAtom (ACapref true " + vlib.Bytes(t.Spelling) + ")", true
	case parser.ID:
		return "TId " + vlib.Bytes(t.Spelling), true
	case parser.BUILTIN:
		return "TBuiltin " + vlib.Bytes(t.Spelling), true
	case parser.NOT:
		return "TNot", true
	case parser.INC:
		return "TPost true", true
	case parser.DEC:
		return "TPost false", true
	case parser.ASSIGN:
		return "TAssign false", true
	case parser.ADD_ASSIGN:
		return "TAssign true", true
	case parser.LPAREN:
		return "TLP", true
	case parser.RPAREN:
		return "TRP", true
	case parser.LSQUARE:
		return "TLB", true
	case parser.RSQUARE:
		return "TRB", true
	case parser.COMMA:
		return "TComma", true
	}
	if o, ok := binNames[int(t.Kind)]; ok {
		return "TOp " + o, true
	}
	return "", false
}

// declKind: the metrics.Kind value the parser gives a type keyword
func declKind(k parser.Kind) metrics.Kind {
	switch k {
	case parser.COUNTER:
		return metrics.Counter
	case parser.GAUGE:
		return metrics.Gauge
	case parser.TIMER:
		return metrics.Timer
	case parser.TEXT:
		return metrics.Text
	}
	return metrics.Histogram
}

type caseJ struct {
	Program string `json:"program"`
	Expr    string `json:"expr"`
	Fmt     string `json:"formatted"`
}

// ---------------------------------------------------------------- main

func checkProgram(out *vlib.Out, src string, what string) (formatted string, accepted bool) {
	cs := map[string]any{"kind": "program", "src": vlib.Q(src), "what": what}
	o1, err := format(src)
	if err != nil {
		if strings.HasPrefix(err.Error(), "panic") {
			out.Violate("formatter-panics", err.Error(), cs)
		}
		return "", false
	}
	a0, _ := parser.Parse("p", strings.NewReader(src))
	a1, err := parser.Parse("p", strings.NewReader(o1))
	if err != nil {
		cl := "formatted-output-unparsable"
		switch {
		case strings.Contains(src, `\"`):
			cl += "/string-with-quote"
		case strings.Contains(o1, "µs") || strings.Contains(o1, "ns\n"):
			cl += "/sub-millisecond-expiry"
		case strings.Contains(src, "by \""):
			cl += "/quoted-key"
			for _, w := range reservedWords {
				if strings.Contains(src, "\""+w+"\"") {
					cl = "formatted-output-unparsable/reserved-word-key"
				}
			}
		}
		cs["formatted"] = vlib.Q(o1)
		out.Violate(cl, fmt.Sprintf("the formatted program does not parse: %v", strings.SplitN(err.Error(), "\n", 2)[0]), cs)
		return o1, true
	}
	c0, c1 := canonStr(a0), canonStr(a1)
	if c0 != c1 {
		cs["formatted"] = vlib.Q(o1)
		out.Violate(classify(c0, c1), "the formatted program parses to a different program than the original", cs)
	}
	o2, err := format(o1)
	if err != nil {
		cs["formatted"] = vlib.Q(o1)
		out.Violate("formatted-output-rejected", fmt.Sprintf("the formatted program is not accepted again: %v", strings.SplitN(err.Error(), "\n", 2)[0]), cs)
	} else if o2 != o1 {
		cs["formatted"] = vlib.Q(o1)
		out.Violate("second-formatting-differs", "formatting the formatted program changes the text", cs)
	}
	return o1, true
}

func main() {
	a := vlib.ParseArgs()
	if a.Replay != "" {
		replay(a.Replay)
		return
	}
	out := vlib.NewOut(a, "From V Require Import Corr.Run_C23.", "c23case", 140)
	rng := vlib.NewRand(a.Seed)
	np := 160
	if a.Thorough() {
		np = 1500
	}
	// fixed witnesses of DESIGN.md §6 first
	for _, w := range []string{
		"counter c\n/x/ {\n  c = (1 + 2) * 3\n}\n",
		"hidden counter c as \"d\"\n/x/ {\n  c++\n}\n",
		"histogram h buckets 0.0000001, 1 by a\n/(\\d+)/ {\n  h[$1] = $1\n}\n",
		"text t\n/x/ {\n  t = \"a\\\"b\"\n}\n",
		"gauge g\n/x/ {\n  g = 2.0\n}\n",
		"gauge g\n/x/ {\n  g = ~(1 + 2)\n}\n",
		"gauge g\n/x/ {\n  g = 1 - (2 - 3)\n}\n",
		"counter c by a\n/(x)/ {\n  c[$1]++\n  del c[$1] after 0.000001s\n}\n",
		"counter c\n/x/ && (1 > 0 || 2 > 1) {\n  c++\n}\n",
		"counter c by \"a b\"\n/(x)/ {\n  c[$1]++\n}\n",
		"counter c by a limit -1\n/(x)/ {\n  c[$1]++\n}\n",
		// one level for * / % **: a power as the right operand keeps its parentheses
		"gauge g\n/x/ {\n  g = 2 * (3 ** 2)\n  g = 8 / (2 ** 2)\n  g = 7 % (2 ** 2)\n  g = 2 ** (3 * 2)\n  g = 2 ** 3 ** 2\n  g = 2 ** (3 ** 2)\n}\n",
		// whole-valued floats around the switch to exponent notation
		"gauge g\n/x/ {\n  g = 999999.0\n  g = 1000000.0\n  g = 2.5e6\n  g = 1e21\n  g = -3e7\n  g = 1e100 + 0.5\n}\n",
	} {
		if _, ok := checkProgram(out, w, "witness"); !ok {
			out.Violate("witness-rejected", "a fixed witness program is no longer accepted by the checker", map[string]any{"kind": "program", "src": vlib.Q(w)})
		}
		out.Count("program/witness")
	}
	for _, w := range reservedWords {
		src := "counter events by \"" + w + "\", k as \"" + w + "\"\n/(x)/ {\n  events[$1][$1]++\n}\n"
		if _, ok := checkProgram(out, src, "reserved-word"); !ok {
			out.Violate("witness-rejected", "a program with the key \""+w+"\" is not accepted by the checker", map[string]any{"kind": "program", "src": vlib.Q(src)})
		}
		out.Count("program/reserved-word-key")
	}
	accepted, rejected, outside, orderSkew := 0, 0, 0, 0
	seenLit := map[string]bool{}
	for i := 0; i < np; i++ {
		fl := genFlags{parens: true, hidden: true, buckets: true, quotes: true, floats: true, smallDur: true, qkeys: true}
		// a quarter of the programs avoid each lossy construct in turn, so that
		// one defect does not hide another
		switch i % 8 {
		case 1:
			fl.parens = false
		case 2:
			fl = genFlags{parens: true}
		case 3:
			fl = genFlags{hidden: true, buckets: true}
		case 4:
			fl = genFlags{quotes: true, floats: true}
		case 5:
			fl = genFlags{smallDur: true, qkeys: true}
		}
		src, exprs, decls, feats := genProgram(rng, fl)
		o1, ok := checkProgram(out, src, "generated")
		if !ok {
			rejected++
			if rejected <= 3 {
				_, err := format(src)
				out.Extra[fmt.Sprintf("rejected_example_%d", rejected)] = fmt.Sprintf("%v", err)
			}
			continue
		}
		_ = o1
		accepted++
		out.Count("program/generated")
		for f := range feats {
			out.Count("feature/" + f)
		}
		// expression cases for the model
		ast0, _ := parser.Parse("p", strings.NewReader(src))
		ast0, err := checker.Check(ast0, 0, 0)
		if err != nil {
			continue
		}
		// per-declaration and per-expression cases localise a disagreement that the
		// whole-program case would also show; in the quick tier every third program
		perNode := a.Thorough() || i%3 == 0
		if sl, ok := ast0.(*ast.StmtList); ok && perNode {
			k := 0
			for _, ch := range sl.Children {
				vd, ok := ch.(*ast.VarDecl)
				if !ok {
					continue
				}
				u := parser.Unparser{}
				ftxt := u.Unparse(&ast.StmtList{Children: []ast.Node{vd}})
				ftoks, ok1 := declTokens(ftxt)
				stoks, ok2 := ftoks, true
				srcLine := ""
				if k < len(decls) {
					srcLine = decls[k]
					stoks, ok2 = declTokens(srcLine)
				}
				k++
				if !ok1 || !ok2 {
					out.Count("decl/untokenisable")
					continue
				}
				id := out.NextID()
				out.Add(vlib.App("CDecl", vlib.N(id), coqDecl(vd), ftoks, stoks), caseJ{vlib.Q(srcLine), coqDecl(vd), vlib.Q(ftxt)},
					vd.Hidden || vd.ExportedName != "" || len(vd.Buckets) > 0 || vd.Limit != 0)
				out.Count("decl/in-model")
			}
		}
		// every string and pattern literal: tree text vs what the Unparser writes
		litNodes(ast0, func(n ast.Node) {
			var q byte
			var text string
			switch v := n.(type) {
			case *ast.StringLit:
				q, text = '"', v.Text
			case *ast.PatternLit:
				q, text = '/', v.Pattern
			default:
				return
			}
			key := string(q) + text
			if seenLit[key] {
				return
			}
			seenLit[key] = true
			u := parser.Unparser{}
			f := strings.TrimSuffix(u.Unparse(&ast.StmtList{Children: []ast.Node{n}}), "\n")
			if len(f) < 2 || f[0] != q || f[len(f)-1] != q {
				out.Violate("literal-not-delimited", fmt.Sprintf("the unparser wrote %q for a literal with text %q", f, text), map[string]any{"kind": "program", "src": vlib.Q(src)})
				return
			}
			id := out.NextID()
			out.Add(vlib.App("CLit", vlib.N(id), strconv.Itoa(int(q)), vlib.Bytes(text), vlib.Bytes(f[1:len(f)-1])),
				caseJ{"", vlib.Q(text), vlib.Q(f)}, strings.ContainsAny(text, "\"/\\"))
			out.Count("literal/in-model")
		})
		// the whole program (quick tier: every second program goes to Coq; the Go
		// oracle above judges every program)
		if !a.Thorough() && i%2 == 1 {
			out.Count("program/not-sent-to-coq")
		} else if term, ok := coqBlock(ast0); ok {
			u := parser.Unparser{}
			ftoks, ok1 := progTokens(u.Unparse(ast0))
			stoks, ok2 := progTokens(src)
			if ok1 && ok2 {
				id := out.NextID()
				out.Add(vlib.App("CProg", vlib.N(id), term, ftoks, stoks), caseJ{vlib.Q(src), "", vlib.Q(o1)}, true)
				out.Count("program/in-model")
			} else {
				out.Count("program/untokenisable")
			}
		} else {
			out.Count("program/outside-model")
		}
		var nodes []ast.Node
		exprNodes(ast0, &nodes)
		// the generator's own top-level pattern conditions are not in exprs: align from the back per block is
		// fragile, so match by formatted-then-reparsed text instead: only nodes whose count matches are paired
		var gnodes []ast.Node
		for _, n := range nodes {
			if pe, ok := n.(*ast.UnaryExpr); ok && pe.Op == parser.MATCH {
				if p, ok := pe.Expr.(*ast.PatternExpr); ok {
					if _, ok := p.Expr.(*ast.BinaryExpr); ok {
						continue // block heads built from pattern concatenations
					}
				}
			}
			gnodes = append(gnodes, n)
		}
		paired := len(gnodes) == len(exprs)
		if !paired {
			orderSkew++
		}
		for j, n := range gnodes {
			if !perNode {
				break
			}
			term, ok := coqStmt(n)
			if !ok {
				outside++
				out.Count("expr/outside-model")
				continue
			}
			u := parser.Unparser{}
			ftxt := u.Unparse(&ast.StmtList{Children: []ast.Node{n}})
			ftoks, ok1 := tokens(ftxt)
			stoks := ftoks
			ok2 := true
			if paired {
				stoks, ok2 = tokens(exprs[j])
			}
			if !ok1 || !ok2 {
				outside++
				out.Count("expr/untokenisable")
				continue
			}
			id := out.NextID()
			nontriv := strings.Contains(ftxt, "(") || strings.Count(term, "(Bin ") >= 2
			src1 := ""
			if paired {
				src1 = exprs[j]
			}
			out.Add(vlib.App("CExpr", vlib.N(id), term, ftoks, stoks), caseJ{vlib.Q(src1), term, vlib.Q(ftxt)}, nontriv)
			out.Count("expr/in-model")
		}
	}
	out.Extra["programs_accepted"] = accepted
	out.Extra["programs_rejected_by_checker"] = rejected
	out.Extra["expressions_outside_model"] = outside
	out.Extra["programs_with_unpaired_source_text"] = orderSkew
	if accepted*2 < np {
		out.Violate("generator-degenerate", fmt.Sprintf("only %d of %d generated programs were accepted by the checker", accepted, np), nil)
	}
	out.Flush("programs: generated with declarations (hidden, as, limit, quoted keys, small buckets), const fragments, decorators, nested conditions with else/otherwise, del with expiry, strings with quotes and backslashes, integral floats, every binary operator at every level with needed and redundant parentheses placed by an independent precedence table; every accepted program goes through the mfmt pipeline and the structural/textual oracle. Coq cases: each expression statement and condition of those programs; non-trivial when the formatted text has a parenthesis or the tree has >= 2 binary operators", false)
}

func replay(path string) {
	var v struct {
		Class string         `json:"class"`
		Case  map[string]any `json:"case"`
	}
	vlib.ReadJSON(path, &v)
	src, _ := v.Case["src"].(string)
	src = vlib.UnQ(src)
	fmt.Printf("replay %s (%s)\n---- source\n%s", path, v.Class, src)
	o := vlib.NewOut(vlib.Args{}, "", "", 1)
	f, ok := checkProgram(o, src, "replay")
	fmt.Printf("---- formatted (accepted by the checker: %v)\n%s", ok, f)
	if len(o.Viol) > 0 {
		fmt.Println("FAILS:", o.Viol[0].Class, "-", o.Viol[0].What)
		os.Exit(1)
	}
	fmt.Println("holds")
}
