//go:build verif

// Package c20struct adds a structural correspondence to C20's check: the
// ordered-events IR of the runtime's goroutines (harness/xlate/seqir.go) is
// re-extracted from $VERIF_REPO's source and written as an extra shard
// (cases_struct.v, case type c20scase of coq/Corr/Run_C20_struct.v) whose
// obligation is that the verified automaton checker accepts each IR.  A Go
// copy of the automata proposes the loop invariants and reports, through the
// oracle channel, where an IR is refused.
package c20struct

import (
	"fmt"
	"os"
	"path/filepath"
	"sort"
	"strings"

	"github.com/google/mtail/internal/zzverif/vlib"
	"github.com/google/mtail/internal/zzverif/xlate"
)

// ---- Go copies of the automata of coq/Export/SeqIR.v (states are Coq terms) ----

func lockStep(l, c string) (string, bool) {
	switch c {
	case "AcqR":
		if l == "L0" {
			return "LR", true
		}
		return "", false
	case "RelR":
		if l == "LR" {
			return "L0", true
		}
		return "", false
	case "AcqW":
		if l == "L0" {
			return "LW", true
		}
		return "", false
	case "RelW":
		if l == "LW" {
			return "L0", true
		}
		return "", false
	case "ReadHandles", "SendLine":
		return l, l != "L0"
	case "InstallHandle", "DeleteHandle", "CloseLines", "RecvDone", "CallAdd", "CallStartVM":
		return l, l == "LW"
	}
	return l, true
}

type automaton struct {
	ctor  string
	init  string
	delta func(q, c string) (string, bool)
}

func dLock(q, c string) (string, bool) { return lockStep(q, c) }

func dLoop(q, c string) (string, bool) { // "(mkLQ L0 false)"
	f := strings.Fields(strings.Trim(q, "()"))
	l, ended := f[1], f[2] == "true"
	l2, ok := lockStep(l, c)
	if !ok {
		return "", false
	}
	mk := func(l string, e bool) string { return fmt.Sprintf("(mkLQ %s %v)", l, e) }
	switch c {
	case "TakeLine":
		return q, !ended && l == "L0"
	case "InputClosed":
		return mk(l2, true), l == "L0"
	case "CloseLines", "DeleteHandle":
		return mk(l2, ended), ended
	case "SendLine":
		return mk(l2, ended), !ended
	}
	return mk(l2, ended), true
}

func dReload(q, c string) (string, bool) { // "(mkRQ L0 O0)"
	f := strings.Fields(strings.Trim(q, "()"))
	l, o := f[1], f[2]
	l2, ok := lockStep(l, c)
	if !ok {
		return "", false
	}
	mk := func(l, o string) string { return fmt.Sprintf("(mkRQ %s %s)", l, o) }
	switch c {
	case "CloseLines":
		return mk(l2, "O1"), o == "O0"
	case "RecvDone":
		return mk(l2, "O3"), o == "O1"
	case "CallAdd", "CallStartVM":
		switch o {
		case "O1":
			return "", false
		case "O0":
			return mk(l2, "O2"), true
		}
		return mk(l2, o), true
	case "RelW":
		return mk(l2, "O0"), o != "O1"
	}
	return mk(l2, o), true
}

func dVM(q, c string) (string, bool) {
	switch c {
	case "VmRecv":
		return "V1", q == "V0"
	case "VmProcess":
		return "V0", q == "V1"
	case "VmClosed":
		return "V2", q == "V0"
	case "WgDone":
		return "V3", q == "V2"
	case "CloseDone":
		return "V4", q == "V3"
	}
	return q, true
}

var automata = map[string]automaton{
	"loop":    {"SLoop", "(mkLQ L0 false)", dLoop},
	"reload":  {"SReload", "(mkRQ L0 O0)", dReload},
	"unload":  {"SUnload", "L0", dLock},
	"startvm": {"SStartVM", "LW", dLock},
	"vmgo":    {"SVmGo", "V0", dVM},
}

// ---- Go copy of the checker, with invariant inference ----

type set map[string]bool

func (s set) list() []string {
	var l []string
	for k := range s {
		l = append(l, k)
	}
	sort.Strings(l)
	return l
}
func union(a, b set) set {
	r := set{}
	for k := range a {
		r[k] = true
	}
	for k := range b {
		r[k] = true
	}
	return r
}
func subset(a, b set) bool {
	for k := range a {
		if !b[k] {
			return false
		}
	}
	return true
}

type checker struct {
	a    automaton
	invs map[int]set
	viol []xlate.QNode
}

// returns the fall-through set (nil: none)
func (c *checker) block(ns []xlate.QNode, X set) set {
	for _, n := range ns {
		X = c.stmt(n, X)
		if X == nil {
			return nil
		}
	}
	return X
}

func (c *checker) stmt(n xlate.QNode, X set) set {
	switch n.K {
	case "Ev":
		out := set{}
		for q := range X {
			q2, ok := c.a.delta(q, n.C)
			if !ok {
				c.viol = append(c.viol, n)
				return set{}
			}
			out[q2] = true
		}
		return out
	case "If":
		t := c.block(n.Then, X)
		e := c.block(n.Else, X)
		if t == nil {
			return e
		}
		if e == nil {
			return t
		}
		return union(t, e)
	case "Loop":
		H := union(X, set{})
		for i := 0; i < 16; i++ {
			saved := c.viol
			f := c.block(n.Body, H)
			c.viol = saved
			if f == nil || subset(f, H) {
				break
			}
			H = union(H, f)
		}
		c.invs[n.Site] = H
		c.block(n.Body, H) // record the violations at the invariant
		return H
	case "Return":
		return nil
	}
	c.viol = append(c.viol, n)
	return set{}
}

type caseJ struct {
	What  string        `json:"what"`
	Fn    string        `json:"fn"`
	IR    []xlate.QNode `json:"ir,omitempty"`
	Event *xlate.QNode  `json:"refused,omitempty"`
}

func repoDir() string {
	if d := os.Getenv("VERIF_REPO"); d != "" {
		return d
	}
	return "/repo"
}

// Attach extracts and checks the structure now (oracle entries go to out) and
// returns the function that writes the extra shard; call it after out.Flush.
// Nothing here can make the caller fail: errors become a refused case.
func Attach(out *vlib.Out, dir string) func() {
	shard := ""
	func() {
		defer func() {
			if r := recover(); r != nil {
				shard = fmt.Sprintf("(* c20struct panicked: %v *)\nFrom V Require Import Corr.Run_C20_struct.\nDefinition M := [900000%%N].\nPrint M.\n", r)
			}
		}()
		rt, err1 := xlate.LoadPkg(filepath.Join(repoDir(), "internal", "runtime"))
		vm, err2 := xlate.LoadPkg(filepath.Join(repoDir(), "internal", "runtime", "vm"))
		if err1 != nil || err2 != nil {
			panic(fmt.Sprint(err1, err2))
		}
		entries := xlate.RuntimeSeq(rt, vm)
		keys := []string{"loop", "reload", "unload", "startvm", "vmgo"}
		var cases []string
		for i, k := range keys {
			e := entries[k]
			a := automata[k]
			ck := &checker{a: a, invs: map[int]set{}}
			ck.block(e.IR, set{a.init: true})
			var invs []string
			var sites []int
			for s := range ck.invs {
				sites = append(sites, s)
			}
			sort.Ints(sites)
			for _, s := range sites {
				invs = append(invs, fmt.Sprintf("(%d, [%s])", s, strings.Join(ck.invs[s].list(), "; ")))
			}
			cases = append(cases, fmt.Sprintf("%s %d %s [%s]", a.ctor, 900000+i, xlate.SeqCoq(e.IR), strings.Join(invs, "; ")))
			out.Count("structure entry " + k)
			seen := map[string]bool{}
			for _, v := range ck.viol {
				v := v
				what := v.C
				if v.K != "Ev" {
					what = "untranslatable"
				}
				cl := "structure:" + e.Name + ":" + what
				if seen[cl] {
					continue
				}
				seen[cl] = true
				out.Violate(cl, fmt.Sprintf("%s: event %s at %s is not allowed there by the structure the Reload/Pipeline models assume (%s) %s",
					e.Name, what, v.Pos, structureText[k], v.Why), caseJ{What: "structure", Fn: e.Name, IR: e.IR, Event: &v})
			}
		}
		shard = "From Coq Require Import List NArith.\nImport ListNotations.\nFrom V Require Import Corr.Run_C20_struct.\nLocal Open Scope N_scope.\n" +
			"Definition cases : list c20scase := [\n" + strings.Join(cases, ";\n") + "\n].\n" +
			"Definition M := Eval vm_compute in mismatches cases.\nPrint M.\n"
		out.Extra["structure_ir"] = entries
	}()
	return func() {
		if dir == "" {
			dir = "."
		}
		_ = os.WriteFile(filepath.Join(dir, "cases_struct.v"), []byte(shard), 0o644)
	}
}

var structureText = map[string]string{
	"loop":    "a line is taken with no lock held, handed over only under handleMu.RLock, VM channels are closed only after the input channel is closed",
	"reload":  "under handleMu.Lock: close(old.lines), then <-old.done, only then ms.Add and startVM; never Add/startVM before the close",
	"unload":  "handle table and handle channels are touched only under handleMu.Lock",
	"startvm": "entered with handleMu.Lock held; installs the handle under it",
	"vmgo":    "lines are received and processed alternately; wg.Done and close(done) only after the loop has ended",
}
